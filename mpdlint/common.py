"""Helpers shared by the property modules."""
from .callgraph import CallGraph, norm
from .facts import callee, op_const, op_local, op_place, const_int

_CG = {}


def callgraph(prog):
    cg = _CG.get(id(prog))
    if cg is None:
        cg = CallGraph(prog)
        _CG[id(prog)] = cg
    return cg


def body_by_name(prog, name):
    """Bodies (fn / assoc fn) whose normalised pretty name equals `name`; if the item was moved to
    another module of the same crate, the unique item with the same module-independent name."""
    from .callgraph import short
    exact = [b for b in prog.bodies.values() if b.kind in ("Fn", "AssocFn") and norm(b.name) == name]
    if exact:
        return exact
    crate = name.split("::", 1)[0].lstrip("<")
    sn = short(name)
    return [b for b in prog.bodies.values() if b.kind in ("Fn", "AssocFn") and b.crate == crate and short(norm(b.name)) == sn]


def one_body(rep, prog, name, rule):
    bs = body_by_name(prog, name)
    if len(bs) != 1:
        rep.fail(rule + ".anchor", name, name,
                 "anchor function %s not found exactly once (found %d): failing closed" % (name, len(bs)))
        return None
    return bs[0]


def family(prog, body):
    """The body plus all closures / coroutines nested in it (tracing wrappers, async blocks)."""
    return [b for b in prog.bodies.values() if b.root == body.root]


def impl_methods(prog, trait_suffix, method):
    """[(impl record, body)] for every workspace impl of `trait` that defines `method`."""
    out = []
    for imp in prog.impls_of(trait_suffix):
        for it in imp["items"]:
            if it["name"] == method and it["def"] in prog.bodies:
                out.append((imp, prog.bodies[it["def"]]))
    return out


def callee_norm(t):
    f = callee(t)
    if f is None:
        return None
    return norm(f["name"])


def callee_names(t):
    """Normalised names under which a call may be matched: trait path and resolved instance."""
    f = callee(t)
    if f is None:
        return []
    out = [norm(f["name"])]
    if f.get("inst_name"):
        out.append(norm(f["inst_name"]))
    return out


def div_by_nonzero_const(body, bb):
    """div/rem-by-zero assert whose divisor is a non-zero constant (never fires)."""
    blk = body.blocks[bb]
    t = blk["t"]
    cl = op_local(t["cond"])
    if cl is None:
        return False
    for s in blk["s"]:
        if s["k"] == "assign" and s["place"]["l"] == cl and not s["place"]["p"] and s["rv"]["k"] == "binop" \
                and s["rv"]["op"] == "Eq":
            a = const_int(op_const(s["rv"]["a"]))
            b = const_int(op_const(s["rv"]["b"]))
            if a is not None and b == 0 and a != 0:
                return True
    return False


def logic_body(prog, fn_name, anchors):
    """The member of the family of `fn_name` (the function itself or a nested closure / async block,
    e.g. under #[tracing::instrument]) that contains a call to one of `anchors` (normalised names)."""
    roots = body_by_name(prog, fn_name)
    if len(roots) != 1:
        return None
    best = None
    for b in family(prog, roots[0]):
        for bb, t in b.calls():
            if any(n in anchors for n in callee_names(t)):
                if best is None or len(b.blocks) > len(best.blocks):
                    best = b
                break
    return best


def switch_atom(body, sw_bb):
    """Describe what a switchInt on a bool tests.  Returns dict or None:
       {kind: 'call', call_bb, names} | {kind: 'cmp', op, lhs (operand), rhs (operand)}
       plus 'true' / 'false' targets (after undoing `Not`)."""
    blk = body.blocks[sw_bb]
    t = blk["t"]
    if t["k"] == "switch" and t.get("ty") not in (None, "bool") and str(t.get("ty")).lstrip("ui").replace("size", "64").isdigit() \
            and len(t["targets"]) == 1 and op_local(t["discr"]) is not None:
        # `match n { 0 => .., _ => .. }`: an integer switch with one listed value is the comparison `n == value`
        v, tgt = t["targets"][0]
        return {"kind": "cmp", "op": "Eq", "lhs": t["discr"], "rhs": {"const": {"c": str(v), "ty": t.get("ty"), "int": v}},
                "true": tgt, "false": t["otherwise"], "bb": sw_bb}
    if t["k"] != "switch" or t.get("ty") != "bool":
        return None
    d = op_local(t["discr"])
    if d is None:
        return None
    zero = [b for v, b in t["targets"] if v == 0]
    if not zero:
        return None
    tt, ff = t["otherwise"], zero[0]
    cur = d
    bb = sw_bb
    for _ in range(8):
        # definition of cur in this block (scan backwards)
        found = None
        for s in reversed(body.blocks[bb]["s"]):
            if s["k"] == "assign" and s["place"]["l"] == cur and not s["place"]["p"]:
                found = s
                break
        if found is not None:
            rv = found["rv"]
            if rv["k"] == "unop" and rv["op"] == "Not":
                cur = op_local(rv["a"])
                tt, ff = ff, tt
                if cur is None:
                    return None
                continue
            if rv["k"] == "use" and op_local(rv["op"]) is not None:
                cur = op_local(rv["op"])
                continue
            if rv["k"] == "binop" and rv["op"] in ("Eq", "Ne", "Lt", "Le", "Gt", "Ge"):
                return {"kind": "cmp", "op": rv["op"], "lhs": rv["a"], "rhs": rv["b"], "true": tt, "false": ff, "bb": sw_bb}
            return None
        # defined by the call that ends a (unique) predecessor
        if 1 <= cur <= body.mir["argc"] and not any(
                s2["k"] == "assign" and s2["place"]["l"] == cur and not s2["place"]["p"] for _, _, s2 in body.stmts()):
            return {"kind": "param", "param": cur, "true": tt, "false": ff, "bb": sw_bb}
        preds = [p for p in body.preds()[bb] if not body.blocks[p]["cleanup"]]
        if len(preds) != 1:
            return None
        pb = preds[0]
        pt = body.blocks[pb]["t"]
        if pt["k"] == "call" and pt["dest"]["l"] == cur and not pt["dest"]["p"]:
            return {"kind": "call", "call_bb": pb, "names": callee_names(pt), "true": tt, "false": ff, "bb": sw_bb,
                    "args": pt["args"]}
        bb = pb
    return None


def last_named_field(place):
    """Name of the last named struct field in a place's projection (e.g. 'recv_buf')."""
    name = None
    for e in place["p"]:
        if isinstance(e, dict) and "f" in e and e.get("n") is not None:
            name = e["n"]
    return name


def ref_field_of_local(body, local, depth=4):
    """If `local` holds `&[mut] <place>` (possibly reborrowed): last named field of that place."""
    for _ in range(depth):
        defs = [s for bb, i, s in body.stmts() if s["k"] == "assign" and s["place"]["l"] == local and not s["place"]["p"]]
        if len(defs) != 1:
            return None
        rv = defs[0]["rv"]
        if rv["k"] == "ref":
            n = last_named_field(rv["place"])
            if n is not None:
                return n
            if rv["place"]["p"] == ["*"]:
                local = rv["place"]["l"]
                continue
            return None
        if rv["k"] == "use" and op_local(rv["op"]) is not None:
            local = op_local(rv["op"])
            continue
        return None
    return None


def incomplete_tests(body):
    """Tests 'is this nom error Incomplete?': [{bb, true (incomplete), false (hard error)}].
    Idioms: `e.is_incomplete()` and a match on the discriminant of nom::Err."""
    from . import tables
    out = []
    for bb in sorted(body.reachable()):
        a = switch_atom(body, bb)
        if a and a["kind"] == "call" and any(n.endswith("::is_incomplete") for n in a["names"]):
            out.append({"bb": a["bb"], "true": a["true"], "false": [a["false"]]})
    for sw in tables.discr_switches(body):
        if sw["adt"].endswith("nom::internal::Err") and "Incomplete" in sw["arms"]:
            others = [t for v, t in sw["arms"].items() if v != "Incomplete"]
            if sw["otherwise"] not in others and not body.blocks[sw["otherwise"]]["t"]["k"] == "unreachable":
                others.append(sw["otherwise"])
            out.append({"bb": sw["bb"], "true": sw["arms"]["Incomplete"], "false": others})
        elif sw["adt"].endswith("nom::internal::Err") and "Incomplete" not in sw["arms"] and "Error" in sw["arms"] \
                and body.blocks[sw["otherwise"]]["t"]["k"] != "unreachable":
            # `Err(nom::Err::Error(_)) => invalid, Err(_) => read more`: the catch-all stands for Incomplete — and for Failure.
            # That is the same classification exactly when the parser applied here cannot fail with Failure (no `cut`, no
            # Failure value built, in anything reachable from the parser functions this body calls): a fact about *another*
            # function, established through the call graph.
            if "Failure" in sw["arms"] or not _failure_producers(body):
                out.append({"bb": sw["bb"], "true": sw["otherwise"], "false": [t for v, t in sw["arms"].items()]})
    return out


def _failure_producers(body):
    """functions reachable from the workspace parser functions `body` calls that can produce nom's Failure"""
    prog = body.prog
    cg = callgraph(prog)
    roots = set()
    for bb, t in body.calls():
        f = callee(t)
        if f is None:
            continue
        for tid in (f.get("inst"), f["def"]):
            cb = prog.bodies.get(tid)
            if cb is not None and cb.crate == body.crate and "::parser::" in norm(cb.name):
                roots.add(cb.id)
        for a in t["args"]:
            c = op_const(a)
            if c is not None and "fn" in c:
                for tid in (c["fn"].get("inst"), c["fn"]["def"]):
                    cb = prog.bodies.get(tid)
                    if cb is not None and "::parser::" in norm(cb.name):
                        roots.add(cb.id)
    if not roots:
        return ["<no parser function found>"]        # fail closed: nothing to establish the fact on
    out = []
    for bid in cg.reachable(roots):
        cb = prog.bodies[bid]
        for bb, t in cb.calls():
            names = callee_names(t)
            if any(n.endswith("nom::combinator::cut") for n in names):
                out.append(norm(cb.name))
            for a in t["args"]:
                c = op_const(a)
                if c is not None and "fn" in c and norm(c["fn"]["name"]).endswith("nom::combinator::cut"):
                    out.append(norm(cb.name))
        for _, _, s2 in cb.stmts():
            if s2["k"] == "assign" and s2["rv"]["k"] == "agg" and s2["rv"].get("variant") == "Failure":
                out.append(norm(cb.name))
    return out


def const_value_of(prog, body, op, depth=6):
    """String value of an operand that is (a copy / reborrow of) a literal or a named constant."""
    from .facts import const_str
    for _ in range(depth):
        c = op_const(op)
        if c is not None:
            v = const_str(c)
            if v is None and "named" in c and c["named"] in prog.consts:
                v = const_str(prog.consts[c["named"]])
            return v
        l = op_local(op)
        if l is None:
            p = op_place(op)
            if p is None or p["p"] != ["*"]:
                return None
            l = p["l"]
        defs = [s for bb, i, s in body.stmts() if s["k"] == "assign" and s["place"]["l"] == l and not s["place"]["p"]]
        if len(defs) != 1:
            return None
        rv = defs[0]["rv"]
        if rv["k"] in ("use", "cast"):
            op = rv["op"]
        elif rv["k"] == "ref" and rv["place"]["p"] in ([], ["*"]):
            op = {"copy": {"l": rv["place"]["l"], "p": []}}
        else:
            return None
    return None


def helper_owners(prog, names, allowed):
    """Who-may-call rules name the functions allowed to do something.  A private (non-exported) function all of whose
    callers are allowed is part of them: returns {name: set(owning allowed functions)} for every name in `names` that is
    allowed itself or such a helper (transitively).  Names are normalised root-function names."""
    cg = callgraph(prog)
    by_root = {}
    for x in prog.bodies.values():
        r = prog.bodies.get(x.root, x)
        by_root.setdefault(norm(r.name), []).append(x)
    owners = {n: {n} for n in names if n in allowed}
    changed = True
    while changed:
        changed = False
        for u in sorted(set(names) - set(owners)):
            members = by_root.get(u, [])
            rootb = [x for x in members if x.id == x.root]
            if not rootb or rootb[0].raw.get("pub") or rootb[0].raw.get("exported"):
                continue
            callers = set()
            for x in members:
                for c in cg.callers.get(x.id, ()):
                    cb = prog.bodies[c]
                    cn = norm(prog.bodies.get(cb.root, cb).name)
                    if cn != u:
                        callers.add(cn)
            if callers and all(c in owners or c in allowed for c in callers):
                own = set()
                for c in callers:
                    own |= owners.get(c, {c})
                owners[u] = own
                changed = True
    return owners


def op_int(body, op, depth=4):
    """Integer value of an operand that is a literal, or a local whose only definition is (a copy of) a literal."""
    for _ in range(depth):
        c = op_const(op)
        if c is not None:
            return c.get("int")
        l = op_local(op)
        if l is None:
            return None
        defs = [s for bb, i, s in body.stmts() if s["k"] == "assign" and s["place"]["l"] == l and not s["place"]["p"]]
        if len(defs) != 1 or defs[0]["rv"]["k"] != "use":
            return None
        op = defs[0]["rv"]["op"]
    return None


def splice_predicates(prog, b):
    """`b` with the small private boolean predicates it calls spliced in (`read.is_eof()` for `amount_read == 0`): a test that was
    given a name is still the same test for the guard rules"""
    if b is None:
        return None
    from .inline import inlined

    def want(cb):
        if cb.raw.get("derived") or cb.crate != b.crate or cb.raw.get("coroutine") or cb.kind not in ("Fn", "AssocFn"):
            return False
        if cb.raw.get("pub") or cb.raw.get("exported") or cb.local_ty(0) != "bool" or len(cb.blocks) > 8:
            return False
        from .inline import module_of
        if module_of(cb) != module_of(prog.bodies.get(b.root, b)):
            return False        # predicates of other modules (ResponseBuilder::is_frame_in_progress) are anchors of their own rules
        # what it calls stays a call (`eof_is_premature(&builder, n)` = `builder.is_frame_in_progress() || n != 0`: the anchor
        # call is then seen in the caller)
        return True
    nb = inlined(prog, b, want, depth=1)
    b = nb if nb.raw.get("inlined") else b
    # ... and the private *async* helpers that wrap the transport read (`read_more(io, buf).await?`): the read, its result and
    # the await stay what the guard rules look for
    def want_read(cb):
        if not cb.raw.get("coroutine") or cb.crate != b.crate or cb.id == b.id:
            return False
        fn = prog.bodies.get(cb.root)
        if fn is None or fn.raw.get("pub") or fn.raw.get("exported") or not norm(cb.name).endswith("::{closure#0}"):
            return False
        return any(n in TRANSPORT_READS for _, t in cb.calls() for n in callee_names(t))
    if b.raw.get("coroutine"):
        nb = inlined(prog, b, want_read, depth=1)
        if any("read" in x for x in (nb.raw.get("inlined") or [])) and any(norm(c.name) in (nb.raw.get("inlined") or []) for c in prog.bodies.values() if want_read(c)):
            nb.raw["inlined"] = list(b.raw.get("inlined") or []) + list(nb.raw.get("inlined") or [])
            b = nb
    return b


TRANSPORT_READS = ("tokio::io::util::async_read_ext::AsyncReadExt::read_buf", "tokio::io::util::async_read_ext::AsyncReadExt::read", "std::io::Read::read")


def logic_or_inlined(prog, fn, anchors):
    """logic body of `fn`; when the anchor call sits in a private sync helper of the connection (e.g. the parse step moved into
    `parse_received`), the body with such helpers spliced in (A12)"""
    b = splice_predicates(prog, _logic_or_inlined(prog, fn, anchors))
    if b is not None:
        from .inline import scalarize_tuples
        b = scalarize_tuples(prog, b)
    return b


def _logic_or_inlined(prog, fn, anchors):
    b = logic_body(prog, fn, anchors)
    if b is not None:
        return b
    from .inline import inlined, same_impl_helpers
    roots = body_by_name(prog, fn)
    if len(roots) != 1:
        return None
    best = None
    cg = callgraph(prog)

    def leads_to_anchor(cb, seen=()):
        # splice only the helpers on the way to the anchor call; other helpers (e.g. the read helper) stay calls, as the rules
        # written against the unsplit function expect them
        if cb.id in seen:
            return False
        for fb2 in family(prog, cb):
            for bb, t in fb2.calls():
                if any(n in anchors for n in callee_names(t)):
                    return True
                f = callee(t)
                tgt = prog.bodies.get((f or {}).get("inst") or (f or {}).get("def")) if f else None
                if tgt is not None and tgt.crate == cb.crate and leads_to_anchor(tgt, seen + (cb.id,)):
                    return True
        return False
    for fb in family(prog, roots[0]):
        base = same_impl_helpers(fb, module=True)
        ib = inlined(prog, fb, lambda cb: base(cb) and leads_to_anchor(prog.bodies.get(cb.root, cb) if cb.raw.get("coroutine") else cb))
        if ib.raw.get("inlined") and any(any(n in anchors for n in callee_names(t)) for bb, t in ib.calls()):
            if best is None or len(ib.blocks) > len(best.blocks):
                best = ib
    return best




def builder_parse_bodies(prog):
    """[ResponseBuilder::parse] — with the private helpers on the way to the component parser spliced in when the parse step was
    moved out of it (e.g. `split_component`), so that rules written against the unsplit function keep seeing one body"""
    b = logic_or_inlined(prog, "mpd_protocol::response::ResponseBuilder::parse", {"mpd_protocol::parser::ParsedComponent::parse"})
    return [b] if b is not None else []


def with_private_callees(prog, body, depth=3):
    """family of `body` plus the families of the private (non-pub, non-exported) workspace functions of the same crate it calls,
    transitively: the bodies a function was split into"""
    out = []
    seen = set()
    work = [(body, depth)]
    while work:
        b, d = work.pop()
        root = prog.bodies.get(b.root, b)
        if root.id in seen:
            continue
        seen.add(root.id)
        fam = family(prog, root)
        out.extend(fam)
        if d <= 0:
            continue
        for fb in fam:
            for bb, t in fb.calls():
                f = callee(t)
                tgt = prog.bodies.get((f or {}).get("inst") or (f or {}).get("def")) if f else None
                if tgt is None or tgt.crate != body.crate or tgt.raw.get("derived"):
                    continue
                troot = prog.bodies.get(tgt.root, tgt)
                if troot.raw.get("pub") or troot.raw.get("exported"):
                    continue
                work.append((troot, d - 1))
    return out
