"""A7 — panic-site inventory over the resolved call graph (DESIGN.md §3)."""
import re

from .callgraph import norm, short
from .cfg import Cfg, reach
from .facts import callee, const_int, op_const, op_local, op_place

# macros of these crates are trusted third-party code (DESIGN §7)
THIRD_PARTY_MACRO_CRATES = {"tracing", "tracing_core", "tracing_attributes", "tokio", "tokio_macros"}

PANIC_MACHINERY = re.compile(
    r"^(core::panicking::|std::panicking::|std::rt::begin_panic|core::option::unwrap_failed|"
    r"core::option::expect_failed|core::result::unwrap_failed|core::slice::index::slice_|"
    r"core::str::slice_error_fail|core::cell::panic_|alloc::raw_vec::capacity_overflow)")

# Functions that panic for some argument *by contract* (normalised pretty names).
PANICKING_API = {
    "core::option::Option::unwrap": "None",
    "core::option::Option::expect": "None",
    "core::option::Option::unwrap_unchecked": "None (UB)",
    "core::result::Result::unwrap": "Err",
    "core::result::Result::expect": "Err",
    "core::result::Result::unwrap_err": "Ok",
    "core::result::Result::expect_err": "Ok",
    "core::result::Result::unwrap_unchecked": "Err (UB)",
    "core::ops::index::Index::index": "index out of range / key missing",
    "core::ops::index::IndexMut::index_mut": "index out of range",
    "core::slice::<impl [T]>::split_at": "mid > len",
    "core::slice::<impl [T]>::split_at_mut": "mid > len",
    "core::slice::<impl [T]>::copy_from_slice": "length mismatch",
    "core::slice::<impl [T]>::clone_from_slice": "length mismatch",
    "core::slice::<impl [T]>::swap": "index out of range",
    "core::slice::<impl [T]>::chunks": "size 0",
    "core::slice::<impl [T]>::chunks_exact": "size 0",
    "core::slice::<impl [T]>::chunks_mut": "size 0",
    "core::slice::<impl [T]>::rchunks": "size 0",
    "core::slice::<impl [T]>::windows": "size 0",
    "core::slice::<impl [T]>::rotate_left": "mid > len",
    "core::slice::<impl [T]>::rotate_right": "k > len",
    "core::slice::<impl [T]>::copy_within": "range out of bounds",
    "core::slice::<impl [T]>::select_nth_unstable": "index out of range",
    "core::str::<impl str>::split_at": "not on a char boundary",
    "core::str::<impl str>::split_at_mut": "not on a char boundary",
    "alloc::string::String::truncate": "not on a char boundary",
    "alloc::string::String::remove": "index out of range",
    "alloc::string::String::insert": "index out of range",
    "alloc::string::String::insert_str": "index out of range",
    "alloc::string::String::drain": "range out of bounds",
    "alloc::string::String::split_off": "not on a char boundary",
    "alloc::string::String::replace_range": "range out of bounds",
    "alloc::vec::Vec::remove": "index out of range",
    "alloc::vec::Vec::swap_remove": "index out of range",
    "alloc::vec::Vec::insert": "index > len",
    "alloc::vec::Vec::drain": "range out of bounds",
    "alloc::vec::Vec::split_off": "at > len",
    "alloc::vec::Vec::splice": "range out of bounds",
    "alloc::vec::Vec::extend_from_within": "range out of bounds",
    "alloc::collections::vec_deque::VecDeque::swap": "index out of range",
    "core::time::Duration::from_secs_f64": "negative, NaN or overflow",
    "core::time::Duration::from_secs_f32": "negative, NaN or overflow",
    "core::time::Duration::new": "overflow",
    "core::time::Duration::mul_f64": "overflow",
    "core::time::Duration::mul_f32": "overflow",
    "core::time::Duration::div_f64": "overflow",
    "core::time::Duration::div_f32": "overflow",
    "core::cell::RefCell::borrow": "already mutably borrowed",
    "core::cell::RefCell::borrow_mut": "already borrowed",
    "bytes::bytes_mut::BytesMut::split_to": "at > len",
    "bytes::bytes_mut::BytesMut::split_off": "at > capacity",
    "bytes::bytes::Bytes::split_to": "at > len",
    "bytes::bytes::Bytes::split_off": "at > len",
    "bytes::bytes::Bytes::slice": "range out of bounds",
    "bytes::buf::buf_impl::Buf::advance": "cnt > remaining",
    "bytes::buf::buf_impl::Buf::copy_to_slice": "not enough bytes",
    "bytes::buf::buf_impl::Buf::copy_to_bytes": "not enough bytes",
    "bytes::buf::buf_impl::Buf::split_to": "not enough bytes",
    "bytes::buf::buf_mut::BufMut::advance_mut": "cnt > remaining",
    "core::iter::traits::iterator::Iterator::step_by": "step 0",
    "core::char::methods::<impl char>::from_digit": "radix > 36",
    "core::char::methods::<impl char>::to_digit": "radix > 36",
    "core::char::methods::<impl char>::is_digit": "radix > 36",
    "core::char::from_digit": "radix > 36",
    "std::thread::spawn": "OS failure",
    "tokio::task::spawn::spawn": "outside a runtime",
    "tokio::runtime::handle::Handle::current": "outside a runtime",
    # capacity arithmetic: documented "panics if the new capacity overflows" — matters wherever
    # the requested size is chosen by the peer
    "bytes::bytes_mut::BytesMut::reserve": "capacity overflow",
    "bytes::bytes_mut::BytesMut::with_capacity": "capacity overflow",
    "bytes::bytes_mut::BytesMut::zeroed": "capacity overflow",
    "bytes::bytes_mut::BytesMut::resize": "capacity overflow",
    "alloc::vec::Vec::reserve": "capacity overflow",
    "alloc::vec::Vec::reserve_exact": "capacity overflow",
    "alloc::vec::Vec::with_capacity": "capacity overflow",
    "alloc::vec::Vec::resize": "capacity overflow",
    "alloc::string::String::reserve": "capacity overflow",
    "alloc::string::String::with_capacity": "capacity overflow",
    "alloc::str::<impl str>::repeat": "capacity overflow",
    "alloc::slice::<impl [T]>::repeat": "capacity overflow",
    "std::collections::hash::map::HashMap::with_capacity": "capacity overflow",
    "std::collections::hash::map::HashMap::reserve": "capacity overflow",
    "core::array::<impl [T; N]>::each_ref": None,
}
PANICKING_API = {k: v for k, v in PANICKING_API.items() if v is not None}

# Buf::get_* family: panic when not enough bytes remain
PANICKING_RE = re.compile(
    r"^(bytes::buf::buf_impl::Buf::get_[a-z0-9_]+|"
    r"core::num::<impl [iu](8|16|32|64|128|size)>::(pow|abs|div_euclid|rem_euclid|ilog|ilog2|ilog10|isqrt|"
    r"next_power_of_two|from_str_radix|strict_[a-z_]+|unchecked_[a-z_]+)|"
    r"<core::time::Duration as core::ops::arith::(Add|Sub|Mul|Div|AddAssign|SubAssign|MulAssign|DivAssign)(<[^>]*>)?>::[a-z_]+|"
    r"<std::time::Instant as core::ops::arith::(Add|Sub|AddAssign|SubAssign)(<[^>]*>)?>::[a-z_]+|"
    r"core::slice::index::<impl core::ops::index::Index(Mut)?<I> for \[T\]>::index(_mut)?|"
    r"core::str::traits::<impl core::ops::index::Index(Mut)?<I> for str>::index(_mut)?|"
    r"<.* as core::ops::index::Index(Mut)?<.*>>::index(_mut)?|"
    r"alloc::vec::<impl core::ops::index::Index(Mut)?<I> for alloc::vec::Vec<T, A>>::index(_mut)?|"
    r"alloc::string::<impl core::ops::index::Index(Mut)?<I> for alloc::string::String>::index(_mut)?"
    r")$")

ASSERT_KINDS = ("bounds", "overflow:", "div_zero", "rem_zero")


def third_party(prog, body, span):
    return any(c in THIRD_PARTY_MACRO_CRATES for _, c in prog.exp_chain(body.crate, span))


def root_name(prog, body):
    r = prog.bodies.get(body.root, body)
    return norm(r.name)


def const_sig(op):
    c = op_const(op)
    if c is None:
        return "_"
    return c["c"]


class Site:
    __slots__ = ("fn", "kind", "body", "bb", "where", "detail", "owners")

    def __init__(self, fn, kind, body, bb, where, detail=None):
        self.owners = []
        self.fn = fn
        self.kind = kind
        self.body = body
        self.bb = bb
        self.where = where
        self.detail = detail

    @property
    def key(self):
        # module-independent: moving a function to another file must not create "new" sites
        return "%s|%s" % (short(self.fn), short(self.kind))


def classify_call(t):
    """Return a site kind string if the call can panic by contract, else None."""
    f = callee(t)
    if f is None:
        return None
    names = [norm(f["name"])]
    if f.get("inst_name"):
        names.append(norm(f["inst_name"]))
    for n in names:
        if PANIC_MACHINERY.match(n):
            return "panic:" + n
    for n in names:
        if n in PANICKING_API:
            return "call:" + n
    for n in names:
        if PANICKING_RE.match(n):
            return "call:" + n
    return None


def sites_in(prog, body, include_third_party=False):
    """All panic-capable constructs of one body (reachable blocks, normal control flow)."""
    out = []
    fn = root_name(prog, body)
    for bb in sorted(body.reachable()):
        blk = body.blocks[bb]
        t = blk["t"]
        span = blk["ts"]
        if t["k"] == "assert" and t["kind"].startswith(ASSERT_KINDS):
            if not include_third_party and third_party(prog, body, span):
                continue
            consts = ",".join(const_sig(o) for o in t["ops"])
            out.append(Site(fn, "assert:%s(%s)" % (t["kind"], consts), body, bb, body.loc(span)))
        elif t["k"] == "call":
            kind = classify_call(t)
            if kind is None:
                continue
            if not include_third_party and third_party(prog, body, span):
                continue
            out.append(Site(fn, kind, body, bb, body.loc(span)))
    return out


def inventory(prog, cg, roots, skip_derived=True):
    """Sites in all workspace bodies reachable from `roots` through the call graph."""
    reach_ = cg.reachable(roots)
    sites = []
    nb = 0
    nblocks = 0
    for bid in sorted(reach_):
        b = prog.bodies[bid]
        if skip_derived and b.raw.get("derived"):
            continue
        nb += 1
        nblocks += len(b.reachable())
        sites.extend(sites_in(prog, b))
    # a private function with exactly one call site is part of its caller: its sites are inventoried under the caller's
    # name, so that moving audited code into such a helper is not a "new" construct (the audit is an inventory by kind; what
    # the construct computes is checked by the shape rules of the respective property)
    owner = single_caller_owner(prog, cg)
    for s in sites:
        chain = []
        cur = s.fn
        while cur in owner and owner[cur] not in chain and len(chain) < 4:
            cur = owner[cur]
            chain.append(cur)
        chain.extend(c for c in getattr(prog, "_shared_helper_callers", {}).get(cur, ()) if c not in chain)
        s.owners = chain
    return sites, reach_, nb, nblocks


def single_caller_owner(prog, cg):
    """{private function: its only caller} for non-exported, non-derived workspace functions called from exactly one call
    site of one other function (normalised root names)."""
    cache = getattr(prog, "_single_caller_owner", None)
    if cache is not None:
        return cache
    root_of = {}
    for b in prog.bodies.values():
        root_of[b.id] = norm(prog.bodies.get(b.root, b).name)
    count = {}
    callers = {}
    for b in prog.bodies.values():
        if b.raw.get("derived"):
            continue
        me = root_of[b.id]
        for bb, t in b.calls():
            f = callee(t)
            if f is None:
                continue
            for tid in cg.targets_of(f):
                tb = prog.bodies[tid]
                tn = root_of[tid]
                if tn == me:
                    continue
                count[tn] = count.get(tn, 0) + 1
                callers.setdefault(tn, set()).add(me)
    # other references (function pointers, closures passed along) make the function reachable in ways not counted here
    referenced = set()
    for b in prog.bodies.values():
        for bb, i, st in b.stmts():
            if st["k"] == "assign":
                rv = st["rv"]
                ops = [rv.get("op")] if rv["k"] in ("use", "cast") else rv.get("ops", []) if rv["k"] == "agg" else []
                for o in ops:
                    c = op_const(o) if o else None
                    if c and "fn" in c:
                        for tid in cg.targets_of(c["fn"]):
                            referenced.add(root_of[tid])
        for bb, t in b.calls():
            for a in t["args"]:
                c = op_const(a)
                if c and "fn" in c:
                    for tid in cg.targets_of(c["fn"]):
                        referenced.add(root_of[tid])
    out = {}
    shared = {}
    for b in prog.bodies.values():
        if b.id != b.root or b.kind not in ("Fn", "AssocFn") or b.raw.get("derived") or b.raw.get("pub") or b.raw.get("exported"):
            continue
        n = root_of[b.id]
        if b.impl and b.impl.get("trait"):
            continue
        if count.get(n) == 1 and len(callers.get(n, ())) == 1 and n not in referenced:
            out[n] = next(iter(callers[n]))
        elif count.get(n, 0) >= 2 and n not in referenced:
            # a private helper several functions were folded into (`exact_size_hint` shared by two `size_hint`s): the sites in it
            # stand for the same construct in each of its callers
            shared[n] = sorted(callers[n])
    prog._single_caller_owner = out
    prog._shared_helper_callers = shared
    return out


# ---- structural discharge: unwrap dominated by an is_some / is_none test ---------------------

def _alias_root(body, local, depth=6):
    """Follow `_k = move/copy _j` / `_k = &_j` chains (single definition) back to a user local."""
    seen = set()
    while depth > 0 and local not in seen:
        seen.add(local)
        depth -= 1
        defs = []
        for bb, i, s in body.stmts():
            if s["k"] == "assign" and s["place"]["l"] == local and not s["place"]["p"]:
                defs.append(s)
        if len(defs) != 1:
            return local
        rv = defs[0]["rv"]
        if rv["k"] == "use":
            p = op_place(rv["op"])
        elif rv["k"] == "ref":
            p = rv["place"]
        else:
            return local
        if p is None or p["p"]:
            return local
        local = p["l"]
    return local


def _writes_local(body, bb, local):
    blk = body.blocks[bb]
    for s in blk["s"]:
        if s["k"] == "assign":
            if s["place"]["l"] == local:
                return True
            rv = s["rv"]
            if rv["k"] == "ref" and rv["mut"] and rv["place"]["l"] == local:
                return True
            if rv["k"] == "rawptr" and rv["place"]["l"] == local:
                return True
        elif s["k"] == "setdiscr" and s["place"]["l"] == local:
            return True
    t = blk["t"]
    if t["k"] == "call" and t["dest"]["l"] == local:
        return True
    if t["k"] == "call":
        for a in t["args"]:
            p = op_place(a)
            if p is not None and "move" in a and p["l"] == local and not p["p"]:
                # moving the option out is a use, the unwrap itself does that through an alias
                pass
    return False


def unwrap_guarded_by_test(body, site_bb):
    """True when the `Option::unwrap` call in `site_bb` takes a local S and every path to it
    passes the 'is some' edge of a test `S.is_none()` / `S.is_some()` with no write to S after
    that edge."""
    t = body.blocks[site_bb]["t"]
    if not t["args"]:
        return False
    arg = op_local(t["args"][0])
    if arg is None:
        return False
    S = _alias_root(body, arg)
    succs = body.succs()
    for bb, ct in body.calls():
        f = callee(ct)
        if f is None:
            continue
        n = norm(f["name"])
        if n not in ("core::option::Option::is_none", "core::option::Option::is_some"):
            continue
        a = op_local(ct["args"][0]) if ct["args"] else None
        if a is None or _alias_root(body, a) != S:
            continue
        res = ct["dest"]["l"]
        tb = ct["target"]
        if tb is None:
            continue
        sw = body.blocks[tb]["t"]
        if sw["k"] != "switch" or op_local(sw["discr"]) != res:
            continue
        # edge on which the option is Some
        zero = [b for v, b in sw["targets"] if v == 0]
        if n.endswith("is_none"):
            some_edges = [(tb, b) for b in zero]
        else:
            some_edges = [(tb, sw["otherwise"])]
        for e in some_edges:
            # edge dominance: unwrap unreachable without the edge
            if site_bb in reach(succs, [0], avoid_edges=[e]):
                continue
            # no write to S between the edge and the unwrap (without re-testing)
            region = reach(succs, [e[1]], avoid=[bb])
            back = _can_reach(succs, site_bb, avoid=(bb,))
            bad = [b for b in region if b in back and b != site_bb and _writes_local(body, b, S)]
            if not bad:
                return True
    return False


def _can_reach(succs, target, avoid=()):
    """Blocks from which `target` is reachable without passing through `avoid`."""
    preds = {}
    for b, ss in enumerate(succs):
        for s in ss:
            preds.setdefault(s, []).append(b)
    seen = {target}
    st = [target]
    while st:
        x = st.pop()
        for p in preds.get(x, ()):
            if p not in seen and p not in avoid:
                seen.add(p)
                st.append(p)
    return seen


class AuditMatcher:
    """Matches inventory sites against an audited table keyed `function|kind`.  A site whose function
    is unknown to the table is matched to the unique unused entry of the same kind whose function no
    longer has any site (a renamed / moved private function), so that a rename does not raise an alarm
    while a genuinely new construct (same kind, old function still there) does."""

    def __init__(self, audited, sites):
        self.audited = audited
        self.used = {}
        self.fns_now = {s.key.split("|", 1)[0] for s in sites}
        self.renamed = {}

    def lookup(self, site):
        key = site.key
        owner_keys = ["%s|%s" % (short(o), short(site.kind)) for o in getattr(site, "owners", [])]
        owner_hit = [k2 for k2 in owner_keys if k2 in self.audited and self.used.get(k2, 0) < self.audited[k2][0]]
        if key in self.audited:
            k = key
        elif owner_hit:
            # the construct sits in a private helper with a single call site: it is the caller's audited construct
            k = owner_hit[0]
        else:
            fn, kind = key.split("|", 1)
            cands = [a for a in self.audited if a.split("|", 1)[1] == kind and a.split("|", 1)[0] not in self.fns_now
                     and self.used.get(a, 0) < self.audited[a][0]]
            if self.renamed.get(fn) in [c.split("|", 1)[0] for c in cands]:
                cands = [c for c in cands if c.split("|", 1)[0] == self.renamed[fn]]
            if len({c.split("|", 1)[0] for c in cands}) != 1:
                return None, key
            k = cands[0]
            self.renamed[fn] = k.split("|", 1)[0]
        self.used[k] = self.used.get(k, 0) + 1
        if self.used[k] <= self.audited[k][0]:
            return self.audited[k], k
        return None, key


CAPACITY_ARG = {"bytes::bytes_mut::BytesMut::with_capacity": 0, "bytes::bytes_mut::BytesMut::zeroed": 0, "alloc::vec::Vec::with_capacity": 0,
                "alloc::string::String::with_capacity": 0, "bytes::bytes_mut::BytesMut::reserve": 1, "alloc::vec::Vec::reserve": 1,
                "alloc::vec::Vec::reserve_exact": 1, "alloc::string::String::reserve": 1}


def constant_capacity(prog, site, limit=1 << 31):
    """Structural discharge of a 'capacity overflow' site: the capacity operand is a compile-time constant (literal or
    named constant) below `limit`.  Returns the constant or None."""
    if not site.kind.startswith("call:"):
        return None
    t = site.body.blocks[site.bb]["t"]
    f = callee(t)
    if f is None:
        return None
    idx = None
    for n in (norm(f["name"]), norm(f.get("inst_name") or f["name"])):
        base = n.split("::<")[0]
        for k, i in CAPACITY_ARG.items():
            if n == k or base == k or n.replace("::<T, A>", "").replace("::<T>", "") == k:
                idx = i
    if idx is None or idx >= len(t["args"]):
        return None
    c = op_const(t["args"][idx])
    if c is None:
        return None
    v = c.get("int")
    if v is None and c.get("named") in prog.consts:
        v = prog.consts[c["named"]].get("int")
    return v if isinstance(v, int) and 0 <= v < limit else None


def constant_arithmetic(prog, site):
    """Structural discharge of an overflow assert whose operands are all compile-time constants (literal or named) and whose
    result fits the operand type, e.g. `16 * DEFAULT_CAPACITY`.  Returns the value or None."""
    if not site.kind.startswith("assert:overflow:"):
        return None
    t = site.body.blocks[site.bb]["t"]
    vals = []
    ty = None
    for o in t.get("ops", []):
        c = op_const(o)
        if c is None:
            return None
        v = c.get("int")
        if v is None and c.get("named") in prog.consts:
            v = prog.consts[c["named"]].get("int")
        if not isinstance(v, int):
            return None
        vals.append(v)
        ty = ty or c.get("ty")
    if len(vals) != 2 or ty is None:
        return None
    bits = {"u8": 8, "u16": 16, "u32": 32, "u64": 64, "usize": 64, "i8": 7, "i16": 15, "i32": 31, "i64": 63, "isize": 63, "u128": 128, "i128": 127}.get(ty)
    if bits is None:
        return None
    op = t["kind"].split(":", 1)[1] if ":" in t["kind"] else t["kind"]
    a, b = vals
    r = {"Add": a + b, "Sub": a - b, "Mul": a * b}.get(op)
    if r is None:
        return None
    lo = -(1 << bits) if ty.startswith("i") else 0
    return r if lo <= r < (1 << bits) else None


def suffix_length_sub(prog, site):
    """Structural discharge of `x.len() - rest.len()` where `rest` is the remaining input a nom parser of this workspace
    returned for `x`: a parser returns a suffix of its input, so the difference cannot underflow.  Returns a description or None."""
    if not site.kind.startswith("assert:overflow:Sub"):
        return None
    from .flow import Flow, identity_through
    from .common import callee_names
    b = site.body
    t = b.blocks[site.bb]["t"]
    ops = t.get("ops", [])
    if len(ops) != 2:
        return None
    fl = Flow(b)

    def len_call(op):
        l = op_local(op)
        if l is None:
            return None
        leaves, _ = fl.sources([l], through_call=None, follow_mut=False)
        calls = [x[1] for x in leaves if x[0] == "call"]
        if len(calls) != 1 or any(x[0] == "const" for x in leaves):
            return None
        t2 = b.blocks[calls[0]]["t"]
        if not any(n.endswith("::len") for n in callee_names(t2)) or not t2["args"]:
            return None
        return t2
    la, lb = len_call(ops[0]), len_call(ops[1])
    if la is None or lb is None:
        return None
    src_a, vis_a = fl.sources([op_local(la["args"][0])], through_call=identity_through, follow_mut=False)
    src_b, _ = fl.sources([op_local(lb["args"][0])], through_call=identity_through, follow_mut=False)
    for leaf in src_b:
        if leaf[0] != "call":
            continue
        pc = b.blocks[leaf[1]]["t"]
        ns = callee_names(pc)
        if not any(n.startswith("mpd_protocol::parser::") for n in ns):
            continue
        for a in pc["args"]:
            la2 = op_local(a)
            if la2 is None:
                continue
            src_in, vis_in = fl.sources([la2], through_call=identity_through, follow_mut=False)
            roots_a = {x for x in vis_a if b.locals[x]["name"]} | {x for x in src_a if x[0] == "param"}
            roots_in = {x for x in vis_in if b.locals[x]["name"]} | {x for x in src_in if x[0] == "param"}
            if roots_a & roots_in:
                return "length of the input minus length of the remaining input returned by %s" % ns[-1]
    return None


def truncate_at_prefix_len(prog, site):
    """Structural discharge of `s.truncate(n)`: n is `str::len()` of the first component returned by `split_once` / `split_at` /
    `rsplit_once` applied to the very same string — a byte length that ends on a character boundary of `s` and is not beyond its end.
    (A character count, a length of another string or an adjusted length is not.)  Returns a description or None."""
    from . import terms
    from .common import callee_names
    b = site.body
    t = b.blocks[site.bb]["t"]
    if len(t.get("args", [])) != 2 or op_local(t["args"][0]) is None or op_local(t["args"][1]) is None:
        return None
    recv = terms.strip_views(terms.simplify(terms.term_of_local(b, op_local(t["args"][0]), depth=12)))
    n = terms.simplify(terms.term_of_local(b, op_local(t["args"][1]), depth=12))
    if not (isinstance(n, tuple) and n[0] == "call" and n[1] in ("core::str::<impl str>::len", "alloc::string::String::len") and len(n[2]) == 1):
        return None
    x = n[2][0]
    path = []
    while isinstance(x, tuple) and x and x[0] == "field":
        path.append(x[3] if len(x) > 3 else None)
        x = x[1]
    x = terms.strip_views(x)
    if not (isinstance(x, tuple) and x[0] == "call" and x[1] in ("core::str::<impl str>::split_once", "core::str::<impl str>::rsplit_once",
                                                                  "core::str::<impl str>::split_at") and x[2]):
        return None
    if not path or path[0] != "0":           # outermost projection: `.0` of the pair = the prefix
        return None
    if terms.strip_views(x[2][0]) != recv:
        return None
    return "truncate(prefix.len()) with the prefix %s returned for the same string" % x[1].rsplit("::", 1)[-1]


def _find_position(term):
    """(receiver term, needle code point) when `term` is the payload of `Some(..)` returned by `str::find(recv, <char const>)`"""
    from . import terms
    if isinstance(term, tuple) and term and term[0] == "field" and len(term) > 3 and term[2] == "Some" and term[3] == "0":
        c = term[1]
        if isinstance(c, tuple) and c[0] == "call" and c[1] in ("core::str::<impl str>::find", "core::str::<impl str>::rfind") and len(c[2]) == 2 \
                and isinstance(c[2][1], tuple) and c[2][1][0] == "const" and isinstance(c[2][1][1], int):
            return terms.strip_views(c[2][0]), c[2][1][1]
    return None


def found_position_discharge(prog, site):
    """Structural discharge of slicing a string at a position `str::find` returned for that same string:
    `s.truncate(i)`, `&s[..i]`, `&s[i..]` (i is a character boundary not beyond the end), `i + 1` (i < len <= isize::MAX cannot
    overflow), and `&s[i + 1..]` when the needle is an ASCII character (one byte long).  Returns a description or None."""
    from . import terms
    b = site.body
    t = b.blocks[site.bb]["t"]

    def term(op):
        l = op_local(op)
        return terms.simplify(terms.term_of_local(b, l, depth=14)) if l is not None else None
    if site.kind.startswith("assert:overflow:Add"):
        ops = t.get("ops", [])
        if len(ops) == 2 and const_int(op_const(ops[1])) == 1 and _find_position(term(ops[0])) is not None:
            return "position returned by str::find plus one: below the string length, cannot overflow"
        return None
    if site.kind == "call:alloc::string::String::truncate" and len(t.get("args", [])) == 2:
        fp = _find_position(term(t["args"][1]))
        recv = terms.strip_views(term(t["args"][0])) if op_local(t["args"][0]) is not None else None
        if fp is not None and fp[0] == recv:
            return "truncate at the position str::find returned for the same string (a character boundary within it)"
        return None
    if site.kind.endswith("Index::index") and len(t.get("args", [])) == 2:
        recv = terms.strip_views(term(t["args"][0])) if op_local(t["args"][0]) is not None else None
        rng = term(t["args"][1])
        if not (isinstance(rng, tuple) and rng and rng[0] == "agg" and str(rng[1]).startswith("core::ops::range::Range") and rng[3]):
            return None
        ok = True
        for bound in rng[3]:
            if bound == ("const", 0):
                continue
            fp = _find_position(bound)
            plus1 = None
            if fp is None and isinstance(bound, tuple) and bound[0] == "field" and isinstance(bound[1], tuple) and bound[1][0] == "binop" \
                    and bound[1][1] in ("AddWithOverflow", "Add") and bound[1][2][1] == ("const", 1):
                plus1 = _find_position(bound[1][2][0])
            if fp is not None and fp[0] == recv:
                continue
            if plus1 is not None and plus1[0] == recv and plus1[1] < 128:
                continue
            ok = False
        if ok:
            return "slice bounded by the position str::find returned for the same string (ASCII needle: the byte after it is a boundary too)"
    return None
