"""Resolved call graph over workspace bodies (analysis A1 of DESIGN.md)."""
import re

from .facts import callee, op_const


def norm(name):
    """Canonical form of a pretty def path: generic *argument* lists `::<…>` are removed
    (also inside `<T as Trait>` / `<impl …>` segments); path structure is kept."""
    if name is None:
        return None
    out = []
    i = 0
    n = len(name)
    while i < n:
        if name.startswith("::<", i) and not name.startswith("::<impl ", i) and not _is_qself(name, i + 2):
            # skip balanced <...>
            depth = 0
            j = i + 2
            while j < n:
                if name[j] == "<":
                    depth += 1
                elif name[j] == ">":
                    depth -= 1
                    if depth == 0:
                        break
                j += 1
            i = j + 1
            continue
        out.append(name[i])
        i += 1
    return "".join(out)


def _is_qself(name, i):
    """`<T as Trait>` segment starting at name[i] == '<' ?"""
    depth = 0
    j = i
    n = len(name)
    while j < n:
        c = name[j]
        if c == "<":
            depth += 1
        elif c == ">":
            depth -= 1
            if depth == 0:
                return False
        elif depth == 1 and name.startswith(" as ", j):
            return True
        j += 1
    return False


class CallGraph:
    def __init__(self, prog):
        self.prog = prog
        self.edges = {}       # body id -> set(body id)
        self.ext = {}         # body id -> list of (callee record, bb) for calls leaving the workspace
        self.callers = {}
        self.trait_impl_methods = {}   # (trait key, method name) -> [impl method def keys]
        for imp in prog.impls:
            t = imp["info"].get("trait")
            if not t:
                continue
            for it in imp["items"]:
                self.trait_impl_methods.setdefault((t, it["name"]), []).append(it["def"])
        for b in prog.bodies.values():
            self._scan(b)
        for a, bs in self.edges.items():
            for c in bs:
                self.callers.setdefault(c, set()).add(a)

    def targets_of(self, fn):
        """Workspace body ids a callee record may denote."""
        prog = self.prog
        out = []
        inst = fn.get("inst")
        if inst and inst in prog.bodies:
            return [inst]
        d = fn["def"]
        if d in prog.bodies and not (fn.get("trait") and not inst):
            return [d]
        if fn.get("trait"):
            # unresolved trait call: every workspace impl of that method (over-approximation),
            # plus the provided default body if any
            meth = d.rsplit("::", 1)[-1]
            out = [m for m in self.trait_impl_methods.get((fn["trait"], meth), []) if m in prog.bodies]
            if d in prog.bodies:
                out.append(d)
        return out

    def _scan(self, b):
        es = self.edges.setdefault(b.id, set())
        ext = self.ext.setdefault(b.id, [])

        def visit_const(c, bb):
            if c is None:
                return
            if "fn" in c:
                ts = self.targets_of(c["fn"])
                if ts:
                    es.update(ts)
                else:
                    ext.append((c["fn"], bb))
            if "closure" in c and c["closure"] in self.prog.bodies:
                es.add(c["closure"])

        def visit_op(o, bb):
            visit_const(op_const(o), bb)

        for bb in b.reachable():
            blk = b.blocks[bb]
            for s in blk["s"]:
                if s["k"] != "assign":
                    continue
                rv = s["rv"]
                k = rv["k"]
                if k in ("use", "cast", "repeat"):
                    visit_op(rv["op"], bb)
                elif k == "unop":
                    visit_op(rv["a"], bb)
                elif k == "binop":
                    visit_op(rv["a"], bb)
                    visit_op(rv["b"], bb)
                elif k == "agg":
                    if rv["agg"] in ("closure", "coroutine", "coroutine_closure") and rv["def"] in self.prog.bodies:
                        es.add(rv["def"])
                    for o in rv["ops"]:
                        visit_op(o, bb)
            t = blk["t"]
            if t["k"] in ("call", "tailcall"):
                visit_op(t["func"], bb)
                for a in t["args"]:
                    visit_op(a, bb)
                # closure call through Fn* traits on a local closure value is covered by the
                # closure-creation edge above
            elif t["k"] == "yield":
                visit_op(t["value"], bb)

    def reachable(self, roots):
        seen = set(r for r in roots if r in self.prog.bodies)
        st = list(seen)
        while st:
            x = st.pop()
            for y in self.edges.get(x, ()):
                if y not in seen:
                    seen.add(y)
                    st.append(y)
        return seen


_PATH = re.compile(r"[A-Za-z_][A-Za-z0-9_]*(?:::[A-Za-z_][A-Za-z0-9_]*)+")


def short(name):
    """Module-independent form of a normalised pretty path: lowercase module segments are dropped
    (`mpd_protocol::response::ResponseBuilder::parse` -> `ResponseBuilder::parse`,
    `mpd_protocol::connection::read_to_buffer` -> `read_to_buffer`), also inside `<T as Trait>`."""
    if name is None:
        return None

    def one(m):
        segs = m.group(0).split("::")
        for i, sg in enumerate(segs):
            if sg[0].isupper():
                return "::".join(segs[i:])
        return segs[-1]
    return _PATH.sub(one, name)
