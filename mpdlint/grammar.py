"""A10 — grammar extraction from nom combinator trees and language equivalence (DESIGN.md §8/§9).

A parser function's MIR is a straight line of calls that build combinator values; the tree is
rebuilt as a regular term over bytes (plus capture markers around every value-producing
class-based leaf and a symbolic PAYLOAD(N) token for `take(n)`), compiled to an NFA and compared
with a reference term by a product construction over lazily determinised subsets.  A difference
is reported with a shortest distinguishing input.
"""
from .callgraph import norm
from .cfg import Cfg
from .common import callee_names, const_value_of
from .facts import callee, const_int, op_const, op_local, op_place
from . import charset

OPEN, CLOSE, PAYLOAD = 256, 257, 258
ALL = frozenset(range(256))


class Unsupported(Exception):
    pass


def cls(chars):
    return frozenset(chars)


def ivs_to_set(ivs):
    s = set()
    for a, b in ivs:
        s.update(range(a, min(b, 255) + 1))
    return frozenset(s)


DIGITS = cls(range(0x30, 0x3A))
ALPHA = cls(list(range(0x41, 0x5B)) + list(range(0x61, 0x7B)))

# ---- term constructors ----------------------------------------------------------------------------
# ('lit', bytes) ('rep', set, min, unbounded) ('seq', [(term, kept)]) ('alt', [term]) ('opt', term)
# ('cap', term, conds) ('take', what) ('until', bytes) ('skip', n) ('ref', def id) ('side', term, cond)


def lit(b):
    return ("lit", bytes(b))


def rep(s, mn):
    return ("rep", frozenset(s), mn, True)


def seq(*items):
    return ("seq", [(t, True) for t in items])


def cap(t, conds=()):
    return ("cap", t, tuple(conds))


def alt(*items):
    return ("alt", list(items))


def opt(t):
    return ("opt", t)


FN_ITEMS = {
    "nom::character::streaming::newline": lambda: lit(b"\n"),
    "nom::character::streaming::digit1": lambda: rep(DIGITS, 1),
    "nom::character::streaming::digit0": lambda: rep(DIGITS, 0),
    "nom::character::streaming::alpha1": lambda: rep(ALPHA, 1),
    "nom::character::streaming::alpha0": lambda: rep(ALPHA, 0),
    "nom::character::streaming::alphanumeric1": lambda: rep(ALPHA | DIGITS, 1),
    "nom::character::streaming::alphanumeric0": lambda: rep(ALPHA | DIGITS, 0),
    "nom::character::streaming::line_ending": lambda: alt(lit(b"\n"), lit(b"\r\n")),
    "nom::character::streaming::crlf": lambda: lit(b"\r\n"),
    "nom::character::streaming::not_line_ending": lambda: rep(ALL - {10, 13}, 0),
    "nom::character::streaming::space0": lambda: rep({9, 32}, 0),
    "nom::character::streaming::space1": lambda: rep({9, 32}, 1),
    "nom::character::streaming::multispace0": lambda: rep({9, 10, 13, 32}, 0),
    "nom::character::streaming::multispace1": lambda: rep({9, 10, 13, 32}, 1),
}
for _w in ("u8", "u16", "u32", "u64", "u128", "usize"):
    FN_ITEMS["nom::character::streaming::" + _w] = (lambda w=_w: ("side", rep(DIGITS, 1), "nom::" + w))
# the complete-input versions denote the same language (their *mode* is C02.streaming's business)
for _k in list(FN_ITEMS):
    FN_ITEMS[_k.replace("::streaming::", "::complete::")] = FN_ITEMS[_k]


class Extractor:
    def __init__(self, prog):
        self.prog = prog
        self.cache = {}
        self.stack = []

    # ---- one function ----------------------------------------------------------------------
    def of_fn(self, body):
        if body.id in self.cache:
            return self.cache[body.id]
        if body.id in self.stack:
            raise Unsupported("recursive grammar at %s" % body.name)
        self.stack.append(body.id)
        saved = self._lits
        try:
            t = self._extract(body)
        finally:
            self._lits = saved
            self.stack.pop()
        self.cache[body.id] = t
        return t

    def _closure_of(self, body, local):
        for bb, i, s in body.stmts():
            if s["k"] == "assign" and s["place"]["l"] == local and not s["place"]["p"] and s["rv"]["k"] == "agg" and s["rv"]["agg"] == "closure":
                return self.prog.bodies.get(s["rv"]["def"])
        return None

    def _pred_set(self, body, op):
        """accept set (bytes) of a predicate operand: closure local or fn item"""
        try:
            return self._pred_set_inner(body, op)
        except charset.Opaque as e:
            raise Unsupported("character predicate not analysable (%s)" % e)

    def _pred_set_inner(self, body, op):
        c = op_const(op)
        if c is not None and "fn" in c:
            n = norm(c["fn"]["name"])
            if n in charset.CLASSIFIERS:
                return ivs_to_set(charset.CLASSIFIERS[n])
            tb = self.prog.bodies.get(c["fn"]["def"])
            if tb is not None:
                acc, width, _ = charset.accept_set(self.prog, tb)
                return ivs_to_set(acc)
            raise Unsupported("predicate %s" % n)
        if c is not None and "closure" in c:
            clos = self.prog.bodies.get(c["closure"])
        else:
            clos = self._closure_of(body, op_local(op))
        if clos is None:
            raise Unsupported("predicate is not a closure")
        try:
            acc, width, _ = charset.accept_set(self.prog, clos)
        except charset.Opaque as e:
            raise Unsupported("predicate not analysable: %s" % e)
        return ivs_to_set(acc)

    def _term_of_operand(self, body, env, op):
        c = op_const(op)
        if c is not None and "fn" in c:
            n = norm(c["fn"]["name"])
            if n in FN_ITEMS:
                return FN_ITEMS[n]()
            tid = c["fn"].get("inst") or c["fn"]["def"]
            if tid in self.prog.bodies:
                return ("ref", tid)
            raise Unsupported("parser function %s" % n)
        l = op_local(op)
        if l is not None and l in env:
            return env[l]
        raise Unsupported("operand is not a parser value")

    def _lit_arg(self, body, op):
        l0 = op_local(op)
        if l0 is not None and l0 in self._lits:
            v = self._lits[l0]
            return v.encode("latin-1") if all(ord(ch) < 256 for ch in v) else v.encode()
        v = const_value_of(self.prog, body, op)
        if v is None:
            c = op_const(op)
            if c is not None and c.get("int") is not None:
                return bytes([c["int"]]) if c["int"] < 256 else chr(c["int"]).encode()
            raise Unsupported("non-constant literal")
        return v.encode("latin-1") if all(ord(ch) < 256 for ch in v) else v.encode()

    def _factory(self, body, t, env):
        """`prefixed_line("ACK ", inner)`: a function of the crate that builds a parser from literals and parsers — its body is
        read with the parameters bound to what this call passes."""
        f = callee(t)
        tid = (f.get("inst") or f["def"]) if f else None
        cb = self.prog.bodies.get(tid)
        if cb is None or cb.crate != body.crate or cb.kind not in ("Fn", "AssocFn") or not cb.local_ty(0).startswith("impl Fn"):
            return None
        if cb.id in self.stack:
            raise Unsupported("recursive parser factory %s" % cb.name)
        bind = {}
        for i, a in enumerate(t["args"]):
            try:
                bind[i + 1] = ("term", self._term_of_operand(body, env, a))
                continue
            except Unsupported:
                pass
            l0 = op_local(a)
            v = self._lits.get(l0) if l0 is not None and l0 in self._lits else const_value_of(self.prog, body, a)
            if v is not None:
                bind[i + 1] = ("lit", v)
        self.stack.append(cb.id)
        saved = self._lits
        try:
            return self._extract(cb, bind)
        finally:
            self._lits = saved
            self.stack.pop()

    _lits = {}

    def _extract(self, body, bind=None):
        prog = self.prog
        env = {}
        self._lits = {}
        for l, (kind, v) in (bind or {}).items():
            if kind == "term":
                env[l] = v
            else:
                self._lits[l] = v
        g = Cfg(body)
        order = sorted(body.reachable(), key=lambda b: sum(1 for o in body.reachable() if o != b and g.dom(o, b)))
        apps = []     # (bb, term)
        # tuples of parser values
        for bb in order:
            blk = body.blocks[bb]
            for s in blk["s"]:
                if s["k"] != "assign" or s["place"]["p"]:
                    continue
                dst = s["place"]["l"]
                rv = s["rv"]
                if rv["k"] == "agg" and rv["agg"] == "tuple" and rv["ops"]:
                    try:
                        env[dst] = ("tuple", [self._term_of_operand(body, env, o) for o in rv["ops"]])
                    except Unsupported:
                        pass
                elif rv["k"] == "use":
                    l = op_local(rv["op"])
                    if l in env:
                        env[dst] = env[l]
                    if l in self._lits:
                        self._lits[dst] = self._lits[l]
                elif rv["k"] == "ref" and rv["place"]["p"] in ([], ["*"]) and rv["place"]["l"] in env:
                    env[dst] = env[rv["place"]["l"]]
            t = blk["t"]
            if t["k"] != "call":
                continue
            ns = callee_names(t)
            dst = t["dest"]["l"] if not t["dest"]["p"] else None
            name = ns[0] if ns else ""
            short = name.rsplit("::", 1)[-1]
            A = t["args"]
            try:
                if name in FN_ITEMS and len(A) == 1:
                    # a primitive parser applied directly to the input (`newline(rest)?`), not passed to a combinator
                    apps.append((bb, FN_ITEMS[name]()))
                    continue
                if name.startswith("nom::"):
                    term = self._nom_call(body, env, name, short, A)
                    if dst is not None and term is not None:
                        env[dst] = term
                    continue
                if any(n in ("core::ops::function::FnMut::call_mut", "core::ops::function::Fn::call", "core::ops::function::FnOnce::call_once",
                             "nom::internal::Parser::parse") for n in ns):
                    l = op_local(A[0])
                    if l in env and env[l][0] != "tuple":
                        apps.append((bb, env[l]))
                    continue
                lits_here = self._lits
                term = self._factory(body, t, env)
                self._lits = lits_here
                if term is not None:
                    if dst is not None:
                        env[dst] = term
                    continue
                f = callee(t)
                tid = (f.get("inst") or f["def"]) if f else None
                if tid in prog.bodies and prog.bodies[tid].crate == body.crate and "IResult" in prog.bodies[tid].raw.get("sig", "") + prog.bodies[tid].local_ty(0) \
                        or (tid in prog.bodies and "nom::internal::Err" in prog.bodies[tid].local_ty(0)):
                    apps.append((bb, ("ref", tid)))
                    continue
                if any(n.endswith("Index::index") for n in ns) and len(A) == 2:
                    # manual advance of the remaining input: &i[k..]
                    l = op_local(A[1])
                    for bb2, i2, s2 in body.stmts():
                        if s2["k"] == "assign" and s2["place"]["l"] == l and s2["rv"]["k"] == "agg" and s2["rv"].get("adt_name", "").endswith("RangeFrom"):
                            k = const_int(op_const(s2["rv"]["ops"][0]))
                            if k is not None:
                                apps.append((bb, ("skip", k)))
            except Unsupported as e:
                if dst is not None:
                    env[dst] = ("unknown", str(e))
        if not apps:
            if 0 in env and env[0][0] not in ("tuple", "unknown"):
                return env[0]          # a function / closure that returns a parser value (continuation of flat_map)
            raise Unsupported("no parser application found in %s" % body.name)
        for bb, term in apps:
            if term[0] == "unknown":
                raise Unsupported(term[1])
        if len(apps) == 1:
            return apps[0][1]
        return ("seq", [(t, True) for bb, t in apps])

    def _nom_call(self, body, env, name, short, A):
        T = lambda i: self._term_of_operand(body, env, A[i])
        if short in ("tag", "tag_no_case") and "::bytes::" in name:
            if short == "tag_no_case":
                raise Unsupported("tag_no_case")
            return lit(self._lit_arg(body, A[0]))
        if short == "char" and "::character::" in name:
            return lit(self._lit_arg(body, A[0]))
        if short in ("take_while", "take_while1", "take_till", "take_till1") and "::bytes::" in name:
            s = self._pred_set(body, A[0])
            if short.startswith("take_till"):
                s = ALL - s
            return rep(s, 1 if short.endswith("1") else 0)
        if short in ("is_not", "is_a") and "::bytes::" in name:
            s = frozenset(self._lit_arg(body, A[0]))
            return rep(ALL - s if short == "is_not" else s, 1)
        if short == "take_until" and "::bytes::" in name:
            return ("until", self._lit_arg(body, A[0]), 0)
        if short == "take_until1" and "::bytes::" in name:
            return ("until", self._lit_arg(body, A[0]), 1)
        if short == "take" and "::bytes::" in name:
            c = op_const(A[0])
            if c is not None and c.get("int") is not None:
                return ("seq", [(("rep1", ALL), True)] * c["int"]) if c["int"] < 64 else ("take", "const")
            return ("take", "n")
        if short in ("map",) and "::combinator::" in name:
            return T(0)
        if short in ("map_res", "map_opt") and "::combinator::" in name:
            c = op_const(A[1])
            cond = norm(c["fn"]["name"]) if c is not None and "fn" in c else "closure"
            return ("side", T(0), cond)
        if short in ("opt",) and "::combinator::" in name:
            return opt(T(0))
        if short in ("cut", "complete", "recognize", "consumed") and "::combinator::" in name:
            return ("cut", T(0)) if short == "cut" else T(0)
        if short == "delimited":
            return ("seq", [(T(0), False), (T(1), True), (T(2), False)])
        if short == "preceded":
            return ("seq", [(T(0), False), (T(1), True)])
        if short == "terminated":
            return ("seq", [(T(0), True), (T(1), False)])
        if short == "separated_pair":
            return ("seq", [(T(0), True), (T(1), False), (T(2), True)])
        if short == "pair":
            return ("seq", [(T(0), True), (T(1), True)])
        if short == "tuple" and "::sequence::" in name:
            t = T(0)
            if t[0] != "tuple":
                raise Unsupported("tuple() of a non-tuple")
            return ("seq", [(x, True) for x in t[1]])
        if short == "alt" and "::branch::" in name:
            t = T(0)
            if t[0] != "tuple":
                raise Unsupported("alt() of a non-tuple")
            return ("alt", list(t[1]))
        if short == "flat_map" and "::combinator::" in name:
            # flat_map(p, |x| q(x)): p, then the parser the closure builds from p's output
            clo = None
            l = op_local(A[1])
            if l is not None:
                clo = self._closure_of(body, l)
            c = op_const(A[1])
            if clo is None and c is not None and "closure" in c:
                clo = self.prog.bodies.get(c["closure"])
            if clo is None:
                raise Unsupported("flat_map with a non-closure continuation")
            return ("seq", [(T(0), True), (self.of_fn(clo), True)])
        if short == "length_data":
            return ("seq", [(T(0), True), (("take", "n"), True)])
        raise Unsupported("nom combinator %s" % name)

    # ---- normalisation --------------------------------------------------------------------------
    def resolve(self, term, kept=True, depth=0):
        """Inline references, mark captures around kept class-based leaves, collect side conditions."""
        if depth > 30:
            raise Unsupported("grammar too deep")
        k = term[0]
        if k == "ref":
            return self.resolve(self.of_fn(self.prog.bodies[term[1]]), kept, depth + 1)
        if k == "lit":
            return term
        if k == "rep":
            return cap(term) if kept else term
        if k == "rep1":
            return term
        if k in ("until", "take"):
            return cap(term) if kept else term
        if k == "skip":
            return term
        if k == "side":
            inner = self.resolve(term[1], kept, depth + 1)
            return add_cond(inner, term[2])
        if k == "cut":
            return self.resolve(term[1], kept, depth + 1)
        if k == "opt":
            return ("opt", self.resolve(term[1], kept, depth + 1))
        if k == "alt":
            return ("alt", [self.resolve(x, kept, depth + 1) for x in term[1]])
        if k == "seq":
            return ("seq", [(self.resolve(x, kept and kk, depth + 1), True) for x, kk in term[1]])
        if k == "unknown":
            raise Unsupported(term[1])
        raise Unsupported("term %s" % k)


def add_cond(term, cond):
    k = term[0]
    if k == "cap":
        return ("cap", term[1], term[2] + (cond,))
    if k == "seq":
        return ("seq", [(add_cond(x, cond), kk) for x, kk in term[1]])
    if k == "opt":
        return ("opt", add_cond(term[1], cond))
    if k == "alt":
        return ("alt", [add_cond(x, cond) for x in term[1]])
    return term


def flatten(term):
    """sequence of atoms with `until` resolved against what follows"""
    k = term[0]
    if k == "seq":
        items = []
        for x, _ in term[1]:
            fx = flatten(x)
            if fx[0] == "seq":
                items.extend(y for y, _ in fx[1])
            else:
                items.append(fx)
        # until(s) must be followed by s (literal, or a manual skip of len(s))
        out = []
        i = 0
        while i < len(items):
            it = items[i]
            base = it[1] if it[0] == "cap" else it
            if base[0] == "until":
                s = base[1]
                if len(s) != 1:
                    raise Unsupported("take_until with a multi-byte pattern")
                body = ("rep", ALL - {s[0]}, base[2], True)
                out.append(("cap", body, it[2]) if it[0] == "cap" else body)
                nxt = items[i + 1] if i + 1 < len(items) else None
                if nxt is not None and nxt[0] == "skip" and nxt[1] == len(s):
                    out.append(("lit", s))
                    i += 2
                    continue
                if nxt is None:
                    out.append(("look", s))
                i += 1
                continue
            if it[0] == "skip":
                out.extend([("rep1", ALL)] * it[1])
                i += 1
                continue
            out.append(it)
            i += 1
        return ("seq", [(x, True) for x in out])
    if k == "opt":
        return ("opt", flatten(term[1]))
    if k == "alt":
        return ("alt", [flatten(x) for x in term[1]])
    if k == "cap":
        inner = flatten(term[1]) if term[1][0] in ("seq", "opt", "alt") else term[1]
        return ("cap", inner, term[2])
    if k == "until":
        return flatten(("seq", [(term, True)]))
    return term


# ---- NFA -------------------------------------------------------------------------------------------

class NFA:
    def __init__(self):
        self.trans = []     # state -> list of (symbol set or None for epsilon, target)
        self.n = 0

    def new(self):
        self.trans.append([])
        self.n += 1
        return self.n - 1

    def edge(self, a, syms, b):
        self.trans[a].append((syms, b))


def build(nfa, term, start):
    """returns end state"""
    k = term[0]
    if k == "lit":
        cur = start
        for byte in term[1]:
            nx = nfa.new()
            nfa.edge(cur, frozenset([byte]), nx)
            cur = nx
        return cur
    if k == "rep":
        s, mn = term[1], term[2]
        cur = start
        for _ in range(mn):
            nx = nfa.new()
            nfa.edge(cur, s, nx)
            cur = nx
        loop = nfa.new()
        nfa.edge(cur, None, loop)
        nfa.edge(loop, s, loop)
        return loop
    if k == "rep1":
        nx = nfa.new()
        nfa.edge(start, term[1], nx)
        return nx
    if k == "seq":
        cur = start
        for x, _ in term[1]:
            cur = build(nfa, x, cur)
        return cur
    if k == "alt":
        end = nfa.new()
        for x in term[1]:
            s = nfa.new()
            nfa.edge(start, None, s)
            e = build(nfa, x, s)
            nfa.edge(e, None, end)
        return end
    if k == "opt":
        e = build(nfa, term[1], start)
        end = nfa.new()
        nfa.edge(e, None, end)
        nfa.edge(start, None, end)
        return end
    if k == "cap":
        a = nfa.new()
        nfa.edge(start, frozenset([OPEN]), a)
        e = build(nfa, term[1], a)
        b = nfa.new()
        nfa.edge(e, frozenset([CLOSE]), b)
        return b
    if k == "take":
        nx = nfa.new()
        nfa.edge(start, frozenset([PAYLOAD]), nx)
        return nx
    if k == "look":
        # lookahead at the end of the term: the next byte (outside) must be s — cannot be expressed; treat as the literal not consumed
        raise Unsupported("take_until at the end of a parser without consuming its terminator")
    raise Unsupported("cannot compile term %s" % k)


def compile_term(term):
    nfa = NFA()
    s = nfa.new()
    e = build(nfa, term, s)
    return nfa, s, e


def eclose(nfa, states):
    st = list(states)
    seen = set(states)
    while st:
        x = st.pop()
        for syms, t in nfa.trans[x]:
            if syms is None and t not in seen:
                seen.add(t)
                st.append(t)
    return frozenset(seen)


def step(nfa, states, sym):
    out = set()
    for x in states:
        for syms, t in nfa.trans[x]:
            if syms is not None and sym in syms:
                out.add(t)
    return eclose(nfa, out)


def partition(nfas):
    """representatives of the coarsest partition of the alphabet induced by all edge labels"""
    sets = set()
    for nfa in nfas:
        for tr in nfa.trans:
            for syms, t in tr:
                if syms is not None:
                    sets.add(syms)
    sig = {}
    for sym in list(range(256)) + [OPEN, CLOSE, PAYLOAD]:
        key = tuple(sym in s for s in sets)
        sig.setdefault(key, sym)
    return sorted(sig.values())


def show(seq_):
    out = []
    for s in seq_:
        if s == OPEN:
            out.append("⟨")
        elif s == CLOSE:
            out.append("⟩")
        elif s == PAYLOAD:
            out.append("<N payload bytes>")
        elif 0x20 <= s < 0x7F:
            out.append(chr(s))
        else:
            out.append({10: "\\n", 13: "\\r", 9: "\\t"}.get(s, "\\x%02x" % s))
    return "".join(out)


def equivalent(term_a, term_b):
    """(True, None) or (False, (which side accepts, witness string))"""
    na, sa, ea = compile_term(term_a)
    nb, sb, eb = compile_term(term_b)
    reps = partition([na, nb])
    start = (eclose(na, [sa]), eclose(nb, [sb]))
    seen = {start: None}
    queue = [start]
    qi = 0
    while qi < len(queue):
        cur = queue[qi]
        qi += 1
        A, B = cur
        acc_a, acc_b = ea in A, eb in B
        if acc_a != acc_b:
            # rebuild the witness
            w = []
            x = cur
            while seen[x] is not None:
                px, sym = seen[x]
                w.append(sym)
                x = px
            w.reverse()
            return False, ("code" if acc_a else "reference", show(w))
        for sym in reps:
            nxt = (step(na, A, sym), step(nb, B, sym))
            if not nxt[0] and not nxt[1]:
                continue
            if nxt not in seen:
                seen[nxt] = (cur, sym)
                queue.append(nxt)
    return True, None


def conds_of(term, out=None):
    """side conditions attached to the captures, in order"""
    out = out if out is not None else []
    k = term[0]
    if k == "cap":
        out.append(tuple(sorted(set(term[2]))))
    elif k == "seq":
        for x, _ in term[1]:
            conds_of(x, out)
    elif k in ("opt",):
        conds_of(term[1], out)
    elif k == "alt":
        for x in term[1]:
            conds_of(x, out)
    return out


def pretty(term):
    k = term[0]
    if k == "lit":
        return '"%s"' % show(term[1])
    if k == "rep":
        return "%s%s" % (charset.fmt_set(charset.normalise([(c, c) for c in sorted(term[1])])) if len(term[1]) <= 128 else
                         "[^%s]" % show(sorted(ALL - term[1])), "+" if term[2] else "*")
    if k == "rep1":
        return "."
    if k == "seq":
        return " ".join(pretty(x) for x, _ in term[1])
    if k == "alt":
        return "(" + " | ".join(pretty(x) for x in term[1]) + ")"
    if k == "opt":
        return "(" + pretty(term[1]) + ")?"
    if k == "cap":
        return "⟨" + pretty(term[1]) + "⟩"
    if k == "take":
        return "<N bytes>"
    return k
