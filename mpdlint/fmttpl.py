"""The byte template of `core::fmt::Arguments` (library/core/src/fmt/mod.rs): literal pieces prefixed by their length, placeholders
as a byte >= 0xC0 followed by optional fields, a 0 byte at the end.  Used to put `format!("+{:.3}", t)` and
`format!("{sign}{:.3}", t)` with `sign == "+"` into one canonical form (A8)."""
import ast


def parse_const(text):
    """bytes of a rustc-printed byte-string constant (`b"\\xc0\\x00"`)"""
    try:
        v = ast.literal_eval(text)
    except Exception:
        return None
    return v if isinstance(v, bytes) else None


def decode(tpl):
    """[('lit', bytes) | ('ph', raw bytes, plain?)] or None when the template refers to arguments by index or indirectly (then the
    n-th placeholder is not the n-th argument and nothing is folded)."""
    out = []
    i = 0
    n = len(tpl)
    while i < n:
        b = tpl[i]
        if b == 0:
            if i != n - 1:
                return None
            return out
        if b < 0x80:
            out.append(("lit", tpl[i + 1:i + 1 + b]))
            i += 1 + b
        elif b == 0x80:
            ln = int.from_bytes(tpl[i + 1:i + 3], "little")
            out.append(("lit", tpl[i + 3:i + 3 + ln]))
            i += 3 + ln
        elif b >= 0xC0:
            if b & (8 | 16 | 32):
                return None
            ln = 1 + (4 if b & 1 else 0) + (2 if b & 2 else 0) + (2 if b & 4 else 0)
            out.append(("ph", tpl[i:i + ln], b == 0xC0))
            i += ln
        else:
            return None
    return None      # no terminator


def encode(pieces):
    out = b""
    lit = b""

    def flush():
        nonlocal out, lit
        while lit:
            chunk, lit = lit[:0x7f], lit[0x7f:]
            out += bytes([len(chunk)]) + chunk
    for p in pieces:
        if p[0] == "lit":
            lit += p[1]
        else:
            flush()
            out += p[1]
    flush()
    return out + b"\x00"


def rust_repr(bs):
    """the way rustc prints a byte-string constant (`<[u8]>::escape_ascii`)"""
    s = 'b"'
    for b in bs:
        c = chr(b)
        if c == "\t":
            s += "\\t"
        elif c == "\r":
            s += "\\r"
        elif c == "\n":
            s += "\\n"
        elif c in "\\'\"":
            s += "\\" + c
        elif 0x20 <= b < 0x7f:
            s += c
        else:
            s += "\\x%02x" % b
    return s + '"'
