"""Obligation bookkeeping, violations, known findings and the evidence file."""
import json
import os
import time

VERIF = os.path.dirname(os.path.dirname(os.path.abspath(__file__)))


class Report:
    def __init__(self, pid, tier, seed):
        self.pid = pid
        self.tier = tier
        self.seed = seed
        self.t0 = time.time()
        self.obligations = []      # (rule, instance, ok)
        self.violations = []       # dicts
        self.notes = {}
        self.samples = []
        self.assumptions = []
        self.rules = {}            # rule id -> description
        self.explanation = ""
        self.trusted = []
        self.cfgs = []
        self.tree = None
        self.counters = {}
        self.scratch = None

    # -- rule registration ----------------------------------------------------------------
    def rule(self, rid, text):
        self.rules[self._map(rid)] = text

    # -- importing the rules of the property that owns a shared mechanism ---------------------
    def _map(self, rid):
        for frm, to in getattr(self, "_renames", ()):
            if rid.startswith(frm):
                return to + rid[len(frm):]
        return rid

    def importing(self, frm, to):
        """`with rep.importing("C07.", "C05.one-line."):` — obligations recorded inside by rule functions of another property
        (ids starting with `frm`) are booked under this property's rule ids (`to` + rest): a clause of this property that rests
        on a mechanism another property owns is decided by that property's rule, on the same facts."""
        rep = self

        class _Ctx:
            def __enter__(self):
                rep._renames = getattr(rep, "_renames", ()) + ((frm, to),)

            def __exit__(self, *a):
                rep._renames = rep._renames[:-1]
                return False
        return _Ctx()

    def count(self, key, n=1):
        self.counters[key] = self.counters.get(key, 0) + n

    def note(self, key, value):
        self.notes[key] = value

    def sample(self, value):
        self.samples.append(value)

    def assume(self, text):
        if text not in self.assumptions:
            self.assumptions.append(text)

    # -- obligations ----------------------------------------------------------------------
    def ok(self, rule, instance, detail=None):
        rule = self._map(rule)
        self.obligations.append((rule, instance, True))
        if detail is not None and len(self.samples) < 400:
            self.samples.append({"rule": rule, "instance": instance, "verdict": "holds", "detail": detail})

    def fail(self, rule, instance, where, msg, facts=None):
        """Record a violated obligation.  key = '<rule>:<instance>' (no line numbers)."""
        rule = self._map(rule)
        self.obligations.append((rule, instance, False))
        self.violations.append({
            "property": self.pid, "rule": rule, "instance": instance,
            "key": "%s:%s" % (rule, instance), "where": where, "message": msg,
            "facts": facts or {},
        })

    def check(self, cond, rule, instance, where, msg, facts=None, detail=None):
        if cond:
            self.ok(rule, instance, detail)
        else:
            self.fail(rule, instance, where, msg, facts)
        return cond

    def floor(self, rule, what, found, minimum, where=""):
        """Fail closed when a rule matched fewer instances than were confirmed by hand."""
        self.check(found >= minimum, rule + ".floor", what, where,
                   "rule %s matched %d instance(s) of %s, expected at least %d (anchor moved or "
                   "rule went blind: failing closed)" % (rule, found, what, minimum),
                   detail={"found": found, "floor": minimum})

    # -- finish ---------------------------------------------------------------------------
    def finish(self):
        known = []
        kf_path = os.path.join(VERIF, "known_findings.json")
        if os.path.exists(kf_path):
            with open(kf_path) as fh:
                known = json.load(fh).get("findings", [])
        suppress = {(k["property"], k["key"]): k for k in known if k.get("status") == "known"}
        real = []
        evdir = self.scratch or os.path.join(VERIF, "evidence")
        vdir = os.path.join(evdir, "violations")
        os.makedirs(vdir, exist_ok=True)
        # remove stale replay files of this property
        for f in os.listdir(vdir):
            if f.startswith(self.pid + "-"):
                os.remove(os.path.join(vdir, f))
        seen = set()
        n_known = 0
        for v in self.violations:
            if v["key"] in seen:
                continue
            seen.add(v["key"])
            k = suppress.get((self.pid, v["key"]))
            if k is not None:
                n_known += 1
                print("KNOWN-FINDING: property=%s %s %s" % (self.pid, v["key"], k.get("what", "")))
                continue
            real.append(v)
        for i, v in enumerate(real):
            path = os.path.join(vdir, "%s-%d.json" % (self.pid, i))
            with open(path, "w") as fh:
                json.dump(v, fh, indent=1)
            print("%s  rule=%s  instance=%s — %s" % (v["where"], v["rule"], v["instance"], v["message"]))
            print("VIOLATION property=%s replay=%s" % (self.pid, path))
        n_ob = len(self.obligations)
        n_ok = sum(1 for o in self.obligations if o[2])
        distinct = len({(o[0], o[1]) for o in self.obligations})
        per_rule = {}
        for r, _, ok in self.obligations:
            d = per_rule.setdefault(r, {"obligations": 0, "discharged": 0})
            d["obligations"] += 1
            d["discharged"] += 1 if ok else 0
        samples = self.samples
        if len(samples) > 40:
            # deterministic, seed-dependent choice of which instances are written out
            import random
            rnd = random.Random(self.seed)
            idx = sorted(rnd.sample(range(len(samples)), 40))
            samples = [samples[i] for i in idx]
        cov = {
            "explanation": self.explanation,
            "obligations": n_ob,
            "discharged": n_ok,
            "evaluations": max(n_ob, 1),
            "distinct_nontrivial": distinct,
            "rule": "one obligation per (rule, instance) found in the exported MIR/ADT/impl facts of "
                    "/repo's current tree; distinct = distinct (rule, instance) pairs",
            "rules": self.rules,
            "per_rule": per_rule,
            "samples": samples if samples else [{"note": "no instance samples recorded"}],
            "checker_cmd": "./check %s --tier %s" % (self.pid, self.tier),
            "trusted_base": self.trusted,
            "configurations": self.cfgs,
            "tree_key": self.tree,
            "known_findings_suppressed": n_known,
            "exhaustive": True,
        }
        cov.update(self.counters)
        cov.update(self.notes)
        ev = {
            "property_id": self.pid,
            "tier": self.tier,
            "seed": self.seed,
            "level": "other",
            "coverage": cov,
            "assumptions": self.assumptions,
            "wall_s": round(time.time() - self.t0, 3),
            "violations": len(real),
        }
        os.makedirs(evdir, exist_ok=True)
        with open(os.path.join(evdir, "%s.json" % self.pid), "w") as fh:
            json.dump(ev, fh, indent=1, sort_keys=True)
        print("%s: %d obligations, %d discharged, %d violation(s), %d known finding(s), %.1fs" % (
            self.pid, n_ob, n_ok, len(real), n_known, time.time() - self.t0))
        return 1 if real else 0
