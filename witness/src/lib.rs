//! E2 — compile-fail witnesses (DESIGN.md §2.1): the type system is the mechanism for these clauses.
//! Each `compile_fail,E0xxx` doctest has a compiling twin that differs only in the offending line, so a
//! witness whose path is merely wrong cannot pass.  Run with `cargo +nightly test --doc --offline`
//! (the stable toolchain ignores the error code).

/// C07.lf-owners — the byte buffer of a `Command` is not reachable from another crate, so arbitrary
/// bytes (a line feed) cannot be put into a command behind the validators' back.
///
/// ```compile_fail,E0616
/// let c = mpd_protocol::Command::new("status");
/// let _buf = c.0;
/// ```
///
/// twin:
/// ```
/// let c = mpd_protocol::Command::new("status");
/// let _buf = c;
/// ```
pub struct C07CommandBufferPrivate;

/// C07.lf-owners — the vector of a raw `CommandList` is private as well.
///
/// ```compile_fail,E0616
/// let l = mpd_protocol::CommandList::new(mpd_protocol::Command::new("status"));
/// let _v = l.0;
/// ```
///
/// twin:
/// ```
/// let l = mpd_protocol::CommandList::new(mpd_protocol::Command::new("status"));
/// let _v = l.len();
/// ```
pub struct C07CommandListVecPrivate;

/// C13 — a raw command list cannot be constructed empty from outside the crate: the only constructor
/// takes the first command.
///
/// ```compile_fail,E0603
/// let _l = mpd_protocol::CommandList(Vec::new());
/// ```
///
/// twin:
/// ```
/// let _l = mpd_protocol::CommandList::new(mpd_protocol::Command::new("status"));
/// ```
pub struct C13RawListNeedsFirstCommand;

/// C13 — the unit type is not a typed command list (the empty tuple has no impl; emptiness exists only
/// for `Vec`, where `command_list()` returns `None` and nothing is sent).
///
/// ```compile_fail,E0277
/// fn f(c: &mpd_client::Client) {
///     let _fut = c.command_list(());
/// }
/// ```
///
/// twin:
/// ```
/// fn f(c: &mpd_client::Client) {
///     let _fut = c.command_list((mpd_client::commands::Status,));
/// }
/// ```
pub struct C13UnitIsNoCommandList;

/// C13 — a tuple list yields a tuple of the member responses in the same positions (type-level part of
/// the positional pairing: output i has the type of command i's response).
///
/// ```compile_fail,E0308
/// async fn f(c: &mpd_client::Client) {
///     let (a, _b) = c.command_list((mpd_client::commands::Status, mpd_client::commands::Stats)).await.unwrap();
///     let _: mpd_client::responses::Stats = a;
/// }
/// ```
///
/// twin:
/// ```
/// async fn f(c: &mpd_client::Client) {
///     let (a, _b) = c.command_list((mpd_client::commands::Status, mpd_client::commands::Stats)).await.unwrap();
///     let _: mpd_client::responses::Status = a;
/// }
/// ```
pub struct C13TupleResponseTypesPositional;
