#!/usr/bin/env python3
"""Checker self-test (DESIGN.md §6): firing corpus (mutants.json), silence corpus (benign.json),
seeded changes (/verif/seeded/*/patch.diff) and un-fix patches.  Still static: variants are
analysed, never run.  Usage: run.py [--only ID-prefix] [--kind mutants|benign|seeded|unfix]"""
import argparse
import json
import os
import re
import shutil
import subprocess
import sys
import tempfile

VERIF = os.path.dirname(os.path.dirname(os.path.abspath(__file__)))


def sh(*a, **k):
    return subprocess.run(a, stdout=subprocess.PIPE, stderr=subprocess.STDOUT, text=True, **k)


def run_checks(wt, props):
    out = {}
    for pid in props:
        r = sh(os.path.join(VERIF, "check"), pid, "--repo", wt)
        rules = sorted(set(re.findall(r"rule=(\S+)", r.stdout)))
        out[pid] = (r.returncode, rules, r.stdout)
    return out


def main():
    ap = argparse.ArgumentParser()
    ap.add_argument("--only", default="")
    ap.add_argument("--kind", default="all")
    ap.add_argument("--skip", default="", help="skip variants whose id starts with this prefix")
    ap.add_argument("--property", default="", help="only variants that concern this property; run only its check")
    args = ap.parse_args()
    tmp = tempfile.mkdtemp(prefix="mpdst.")
    wt = os.path.join(tmp, "w")
    r = sh("git", "-C", "/repo", "worktree", "add", "--detach", wt, "HEAD", "-q")
    assert r.returncode == 0, r.stdout
    failures = []
    results = []
    try:
        def reset():
            sh("git", "-C", wt, "checkout", "--", ".")
            sh("git", "-C", wt, "clean", "-fdq")

        def textual(m):
            if "edits" in m:
                for e in m["edits"]:
                    err = textual(e)
                    if err:
                        return err
                return None
            p = os.path.join(wt, m["file"])
            s = open(p).read()
            n = s.count(m["old"])
            if n != m.get("count", 1):
                return "anchor text occurs %d times (expected %d) in %s" % (n, m.get("count", 1), m["file"])
            s = s.replace(m["old"], m["new"])
            open(p, "w").write(s)
            return None

        kinds = ["mutants", "benign", "seeded", "unfix"] if args.kind == "all" else [args.kind]
        for kind in kinds:
            items = []
            if kind in ("mutants", "benign"):
                f = os.path.join(VERIF, "selftest", kind + ".json")
                if os.path.exists(f):
                    items = json.load(open(f))
            elif kind == "seeded":
                sd = os.path.join(VERIF, "seeded")
                if os.path.isdir(sd):
                    for d in sorted(os.listdir(sd)):
                        mp = os.path.join(sd, d, "meta.json")
                        if os.path.exists(mp):
                            meta = json.load(open(mp))
                            items.append({"id": d, "patch": os.path.join(sd, d, "patch.diff"),
                                          "props": meta.get("run_checks", [meta["property"]]),
                                          "expect": meta.get("detected_by", [])})
            elif kind == "unfix":
                ud = os.path.join(VERIF, "selftest", "unfix")
                exp = json.load(open(os.path.join(ud, "expect.json")))
                for k, v in sorted(exp.items()):
                    items.append({"id": k, "patch": os.path.join(ud, k + ".patch"), "props": v["props"], "expect": v["expect"]})
            for m in items:
                if args.only and not m["id"].startswith(args.only):
                    continue
                if args.skip and m["id"].startswith(args.skip):
                    continue
                if args.property:
                    concerned = set(m.get("props") or []) | ({m["property"]} if m.get("property") else set())
                    if args.property not in concerned:
                        continue
                reset()
                if "patch" in m:
                    r = sh("git", "-C", wt, "apply", m["patch"])
                    err = r.stdout if r.returncode else None
                else:
                    err = textual(m)
                if err:
                    failures.append((kind, m["id"], "cannot apply: " + err))
                    print("%-8s %-28s APPLY-FAILED %s" % (kind, m["id"], err))
                    continue
                props = m.get("props") or [m["property"]]
                if args.property and kind == "benign":
                    props = [args.property]
                if args.property and kind == "seeded":
                    # thorough tier of one property: only that property's check, and only its own rules are expected
                    props = [args.property]
                    m = dict(m, expect=[e for e in (m.get("expect") or []) if e.startswith(args.property + ".")])
                    if not m["expect"]:
                        continue
                res = run_checks(wt, props)
                fired = sorted({r for pid in res for r in res[pid][1]})
                broken = [pid for pid in res if res[pid][0] not in (0, 1) or "rule=engine" in res[pid][2]]
                if kind == "benign":
                    # `accepted_alarms`: a documented alarm that policy demands although the variant is behaviour-preserving (a new
                    # panic-capable construct on the peer-bytes path is always listed for audit, DESIGN.md §10.8) — nothing else may fire
                    ok = set(fired) <= set(m.get("accepted_alarms") or []) and not broken
                else:
                    exp = m.get("expect") or []
                    if isinstance(exp, str):
                        exp = [exp]
                    if exp and kind == "seeded":
                        # a seeded change counts as detected when at least one of the rules recorded for it still reports it
                        ok = any(any(f == e or f.startswith(e) for f in fired) for e in exp) and not broken
                    elif exp:
                        ok = all(any(f == e or f.startswith(e) for f in fired) for e in exp) and not broken
                    else:
                        ok = (not fired) if m.get("expect_missed") else bool(fired)
                        ok = ok and not broken
                results.append({"kind": kind, "id": m["id"], "fired": fired, "ok": ok})
                print("%-8s %-28s %s  fired=%s" % (kind, m["id"], "ok " if ok else "FAIL", fired))
                if not ok:
                    failures.append((kind, m["id"], "fired=%s expected=%s" % (fired, m.get("expect"))))
    finally:
        sh("git", "-C", "/repo", "worktree", "remove", "--force", wt)
        shutil.rmtree(tmp, ignore_errors=True)
    out = os.path.join(VERIF, ".cache", "selftest-result.json")
    os.makedirs(os.path.dirname(out), exist_ok=True)
    json.dump(results, open(out, "w"), indent=1)
    print("%d variants, %d failures" % (len(results), len(failures)))
    for f in failures:
        print("  FAIL", f)
    return 1 if failures else 0


if __name__ == "__main__":
    sys.exit(main())
