//! Demonstration of known finding D7 (property C11).  Not run by any check: documentation only.
//! Place as mpd_client/tests/d7_demo.rs and run `cargo test -p mpd_client --test d7_demo --offline`.
//! A filter value passes two quoted-string decoders on the server: the request tokenizer (the whole expression is one
//! double-quoted parameter) and the filter parser's own quoted string.  Both treat `\` as "next character is literal" and a bare
//! `"` as the end of the string.  So `"` must reach the wire as `\\\"` and `\` as `\\\\`.  The library writes `\\"` for `"`
//! (pinned by the unit test `filter_escaping`) and leaves `\` alone; both tests below FAIL on the current tree.
use mpd_client::{commands::{Command, Find}, filter::{Filter, Operator}, tag::Tag};

fn unescape(s: &str) -> Option<(String, &str)> {
    // s starts after an opening '"'; returns (content, rest after the closing quote)
    let mut out = String::new();
    let mut it = s.char_indices();
    while let Some((i, c)) = it.next() {
        match c {
            '"' => return Some((out, &s[i + 1..])),
            '\\' => out.push(it.next()?.1),
            c => out.push(c),
        }
    }
    None
}

fn wire(v: &str) -> String {
    use mpd_client::protocol::Connection;
    struct W<'a>(&'a mut Vec<u8>, std::io::Cursor<Vec<u8>>);
    impl std::io::Read for W<'_> { fn read(&mut self, b: &mut [u8]) -> std::io::Result<usize> { self.1.read(b) } }
    impl std::io::Write for W<'_> { fn write(&mut self, b: &[u8]) -> std::io::Result<usize> { self.0.extend_from_slice(b); Ok(b.len()) } fn flush(&mut self) -> std::io::Result<()> { Ok(()) } }
    let mut io = Vec::new();
    let mut c = Connection::connect(W(&mut io, std::io::Cursor::new(b"OK MPD 0.23.5\n".to_vec()))).unwrap();
    c.send(Find::new(Filter::new(Tag::Title, Operator::Equal, v)).command()).unwrap();
    drop(c);
    String::from_utf8(io).unwrap().trim_end_matches('\n').to_owned()
}

fn server_side_value(v: &str) -> Option<String> {
    let line = wire(v);
    let raw = line.strip_prefix("find ")?;
    let (expr, rest) = unescape(raw.strip_prefix('"')?)?;       // request tokenizer
    if !rest.is_empty() { return None; }
    let inner = expr.strip_prefix("(Title == \"")?;
    let (value, rest) = unescape(inner)?;                        // filter parser
    (rest == ")").then_some(value)
}

#[test] fn double_quote_in_value() { assert_eq!(server_side_value("a\"b").as_deref(), Some("a\"b")); }
#[test] fn plain_value() { assert_eq!(server_side_value("plain value's").as_deref(), Some("plain value's")); }
#[test] fn backslash_in_value() { assert_eq!(server_side_value("a\\b").as_deref(), Some("a\\b")); }
