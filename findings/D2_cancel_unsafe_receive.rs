//! Demonstration of known finding D2 (property C04).  Not run by any check: documentation only.
//! Place as mpd_client/tests/d2_demo.rs and run `cargo test -p mpd_client --test d2_demo --offline`.
//! On the current tree this test FAILS (the `player` event is lost): the idle reply arrives in two
//! reads (`changed: player\n` | `OK\n`) and a request is issued between them; `select!` drops the
//! `AsyncConnection::receive` future whose local ResponseBuilder already holds the consumed line.
use std::time::Duration;

use mpd_client::{
    client::{ConnectionEvent, Subsystem},
    protocol::command::Command,
    Client,
};
use tokio_test::io::Builder;

#[tokio::test]
async fn event_lost_when_request_interleaves_with_split_idle_reply() {
    let io = Builder::new()
        .read(b"OK MPD 0.23.5\n")
        .write(b"idle\n")
        .read(b"changed: player\n")
        .wait(Duration::from_millis(50))
        .write(b"noidle\n")
        .read(b"OK\n")
        .write(b"hello\n")
        .read(b"OK\n")
        .write(b"idle\n")
        .build();
    let (client, mut events) = Client::connect(io).await.unwrap();
    // let the loop read the first half of the idle reply
    tokio::time::sleep(Duration::from_millis(10)).await;
    client.raw_command(Command::new("hello")).await.unwrap();
    let ev = tokio::time::timeout(Duration::from_millis(500), events.next()).await;
    match ev {
        Ok(Some(ConnectionEvent::SubsystemChange(s))) => assert_eq!(s, Subsystem::Player),
        other => panic!("the `player` change reported by the server was not delivered: {other:?}"),
    }
}
