use std::io::Read;

use mpd_protocol::{Connection, MpdProtocolError};

struct Chunks(Vec<&'static [u8]>);

impl Read for Chunks {
    fn read(&mut self, buf: &mut [u8]) -> std::io::Result<usize> {
        if self.0.is_empty() {
            return Ok(0);
        }
        let c = self.0.remove(0);
        buf[..c.len()].copy_from_slice(c);
        Ok(c.len())
    }
}

#[test]
fn second_receive_after_invalid_message_does_not_panic() {
    let io = Chunks(vec![b"OK MPD 0.23.5\n", b"foo: bar\nbad line\n"]);
    let mut conn = Connection::connect(io).unwrap();
    assert!(matches!(conn.receive(), Err(MpdProtocolError::InvalidMessage)));
    // must not panic: an error (or anything else) is fine
    let _ = conn.receive();
}
