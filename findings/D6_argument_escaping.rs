//! Demonstration of known finding D6 (property C06).  Not run by any check: documentation only.
//! Place as mpd_protocol/tests/d6_demo.rs and run `cargo test -p mpd_protocol --test d6_demo --offline`.
//! On the current tree every test below FAILS: the line written for the argument is not split by MPD's request tokenizer
//! (src/util/Tokenizer.cxx, ported below: NextParam = NextString | NextUnquoted) into exactly that argument.
//!  - `Joe's`, `say "hi"`-less `"`, `a\b`: a backslash is inserted although the argument is not quoted; MPD un-escapes only inside
//!    double quotes, and rejects `'` / `"` in an unquoted word (the unit test `argument_escaping` pins `Joe\'s`);
//!  - `` (empty): nothing is written, the parameter vanishes;
//!  - `a\rb`: control characters other than TAB do not trigger quoting, MPD treats every byte <= 0x20 as a separator.
use mpd_protocol::command::Command;

/// port of MPD's Tokenizer: command word, then NextParam until the end of the (right-stripped) line; None = rejected
fn mpd_tokenize(line: &str) -> Option<Vec<String>> {
    let ws = |c: char| (c as u32) <= 0x20;
    let valid_unquoted = |c: char| (c as u32) > 0x20 && c != '"' && c != '\'';
    let s: Vec<char> = line.trim_end_matches(|c: char| (c as u32) <= 0x20).chars().collect();
    let (mut i, n) = (0, s.len());
    let mut toks = Vec::new();
    let st = i;
    while i < n && !ws(s[i]) { i += 1; }
    toks.push(s[st..i].iter().collect());
    while i < n && ws(s[i]) { i += 1; }
    while i < n {
        if s[i] == '"' {
            i += 1;
            let mut buf = String::new();
            loop {
                if i >= n { return None; }
                let mut ch = s[i];
                if ch == '"' { break; }
                if ch == '\\' { i += 1; if i >= n { return None; } ch = s[i]; }
                buf.push(ch);
                i += 1;
            }
            i += 1;
            if i < n && !ws(s[i]) { return None; }
            toks.push(buf);
        } else {
            if !valid_unquoted(s[i]) { return None; }
            let st = i;
            i += 1;
            while i < n && !ws(s[i]) { if !valid_unquoted(s[i]) { return None; } i += 1; }
            toks.push(s[st..i].iter().collect());
        }
        while i < n && ws(s[i]) { i += 1; }
    }
    Some(toks)
}

fn wire(arg: &str) -> String {
    let mut cmd = Command::new("find");
    cmd.add_argument(arg).unwrap();
    let mut io = Vec::new();
    struct W<'a>(&'a mut Vec<u8>, std::io::Cursor<Vec<u8>>);
    impl std::io::Read for W<'_> { fn read(&mut self, b: &mut [u8]) -> std::io::Result<usize> { self.1.read(b) } }
    impl std::io::Write for W<'_> { fn write(&mut self, b: &[u8]) -> std::io::Result<usize> { self.0.extend_from_slice(b); Ok(b.len()) } fn flush(&mut self) -> std::io::Result<()> { Ok(()) } }
    let mut c = mpd_protocol::Connection::connect(W(&mut io, std::io::Cursor::new(b"OK MPD 0.23.5\n".to_vec()))).unwrap();
    c.send(cmd).unwrap();
    drop(c);
    String::from_utf8(io).unwrap().trim_end_matches('\n').to_owned()
}

fn check(arg: &str) {
    let line = wire(arg);
    assert_eq!(mpd_tokenize(&line), Some(vec!["find".to_owned(), arg.to_owned()]), "wire line {line:?}");
}

#[test] fn single_quote() { check("Joe's"); }
#[test] fn double_quote() { check("a\"b"); }
#[test] fn backslash() { check("a\\b"); }
#[test] fn empty() { check(""); }
#[test] fn carriage_return() { check("a\rb"); }
// these pass: quoting is triggered and the escapes are then read back correctly
#[test] fn blank_and_quote() { check("Joe's song"); }
#[test] fn plain() { check("plain"); }
