#!/usr/bin/env python3
"""Print the DESIGN.md §10 table of one wave of seeded changes from /verif/seeded/*/meta.json: gen_seed_table.py <wave>"""
import glob
import json
import re
import sys

wave = int(sys.argv[1])


def cut(s, n):
    s = (s or "").replace("\n", " ").replace("|", "/").strip()
    return s if len(s) <= n else s[:n] + "..."


print("| id | change (summary) | needs | reported by | other rules that also fire |\n|---|---|---|---|---|")
for p in sorted(glob.glob("/verif/seeded/*/meta.json")):
    sid = p.split("/")[-2]
    m = json.load(open(p))
    w = int(re.search(r"w(\d+)", sid).group(1)) if re.search(r"w(\d+)", sid) else 1
    if w != wave:
        continue
    by = m.get("detected_by") or []
    allr = sorted({r for v in (m.get("all_rules_fired") or {}).values() for r in v})
    others = [r for r in allr if r not in by]
    print("| %s | %s | %s | %s | %s |" % (sid, cut(m.get("summary"), 150), cut(m.get("needs"), 110), ", ".join("`%s`" % r for r in by) or "**none**",
                                      ", ".join("`%s`" % r for r in others) or "–"))
