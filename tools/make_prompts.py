#!/usr/bin/env python3
"""Write the prompt for one seeding sub-agent per property: tools/make_prompts.py <wave> <template> [ids...]
The prompt contains only the text of the property (title, statement, quantifier, anchors from properties.jsonl) and one-line
summaries of the changes earlier sub-agents already delivered for it (their own words) — nothing about /verif's machinery.
Prompts go to /tmp/wtout/<Cxx>w<wave>.prompt.txt; the matching scratch worktree is /tmp/wt/<Cxx>w<wave>."""
import glob
import json
import os
import sys

CLAIMED = ["C01", "C02", "C03", "C04", "C05", "C06", "C07", "C08", "C09", "C10", "C11", "C12", "C13", "C14", "C15", "C16", "C17", "C18", "C19", "C20"]


def main():
    wave, tmpl = sys.argv[1], open(sys.argv[2]).read()
    only = sys.argv[3:]
    props = {}
    for line in open("/verif/properties.jsonl"):
        d = json.loads(line)
        props[d["id"]] = d
    os.makedirs("/tmp/wtout", exist_ok=True)
    for pid in CLAIMED:
        if only and pid not in only:
            continue
        d = props[pid]
        text = "%s — %s\n\n%s\n\nQuantified over: %s\n\nMechanisms the property rests on:\n" % (pid, d["title"], d["statement"], d["quantifier"]["text"])
        for m in d["anchors"].get("mechanism", []):
            text += "- %s (%s)\n" % (m["name"], m["where"])
        used = []
        metas = sorted(glob.glob("/verif/seeded/%s*/meta.json" % pid)) + sorted(glob.glob("/verif/seeded-inbox/%sw*/*/meta.json" % pid))
        seen = set()
        for mp in metas:
            try:
                mj = json.load(open(mp))
                if "why_equivalent" in mj:
                    continue        # a behaviour-preserving refactoring of waves 7-10, not a breaking change
                s = (mj.get("summary") or "").strip().replace("\n", " ")
            except Exception:
                continue
            if s and s[:60] not in seen:
                seen.add(s[:60])
                used.append("- " + (s[:150] + ("..." if len(s) > 150 else "")))
        u = ""
        if used:
            u = "Earlier rounds already produced the following changes for this property; do not repeat them (same site with the same slip) — look for other sites:\n" + "\n".join(used) + "\n\n"
        wid = "%sw%s" % (pid, wave)
        out = tmpl.replace("@ID@", wid).replace("@PROP@", text.strip()).replace("@USED@", u)
        open("/tmp/wtout/%s.prompt.txt" % wid, "w").write(out)
        print(wid, len(used), "earlier changes listed")


if __name__ == "__main__":
    main()
