#!/usr/bin/env python3
"""usage: try_variant.py <mutants|benign> <variant id> <check id>...  — apply a corpus variant to a scratch worktree and
print the violation lines of the given checks"""
import json, os, subprocess, sys, tempfile, shutil
kind, vid, props = sys.argv[1], sys.argv[2], sys.argv[3:]
items = json.load(open('/verif/selftest/%s.json' % kind))
m = [x for x in items if x['id'] == vid][0]
tmp = tempfile.mkdtemp(prefix='tv.')
wt = os.path.join(tmp, 'w')
subprocess.check_call(['git', '-C', '/repo', 'worktree', 'add', '--detach', wt, 'HEAD', '-q'])
try:
    for e in m.get('edits', [m]):
        p = os.path.join(wt, e['file']); s = open(p).read()
        assert s.count(e['old']) == e.get('count', 1), (e['file'], s.count(e['old']))
        open(p, 'w').write(s.replace(e['old'], e['new']))
    for pid in props:
        r = subprocess.run(['/verif/check', pid, '--repo', wt], stdout=subprocess.PIPE, stderr=subprocess.STDOUT, text=True)
        for line in r.stdout.splitlines():
            if 'rule=' in line or line.startswith(pid + ':') or 'Error' in line or 'Traceback' in line:
                print(line[:int(os.environ.get('W', '420'))])
finally:
    subprocess.call(['git', '-C', '/repo', 'worktree', 'remove', '--force', wt]); shutil.rmtree(tmp, ignore_errors=True)
