#!/bin/sh
# usage: intake.sh <dir id e.g. C04w5> <check ids...> — copy a finished sub-agent delivery into the inbox, drop its worktree, run checks on each change
id=$1; shift
mkdir -p /verif/seeded-inbox/$id
for v in a b c; do [ -d /tmp/wtout/$id/$v ] && cp -r /tmp/wtout/$id/$v /verif/seeded-inbox/$id/; done
git -C /repo worktree remove --force /tmp/wt/$id 2>/dev/null
for v in a b c; do
  [ -f /verif/seeded-inbox/$id/$v/patch.diff ] || continue
  echo "== $id/$v"
  TP_MAX=${TP_MAX:-4} /verif/tools/try_patch.sh /verif/seeded-inbox/$id/$v/patch.diff "$@" 2>&1 | grep -v "VIOLATION\|KNOWN"
done
