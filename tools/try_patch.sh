#!/bin/sh
# usage: try_patch.sh <patch.diff> <ID> [ID...]  — run checks against a scratch worktree of /repo HEAD with the patch applied
set -e
P=$(readlink -f "$1"); shift
D=$(mktemp -d /tmp/tp.XXXXXX)
git -C /repo worktree add --detach "$D/w" HEAD -q
( cd "$D/w" && git apply "$P" )
rc=0
for id in "$@"; do
  /verif/check "$id" --repo "$D/w" > "$D/out.$id" 2>&1 || rc=1
  grep -E "^VIOLATION|^KNOWN|obligations" "$D/out.$id" | cut -c1-150 | sed "s/^/[$id] /"
  grep -E "rule=" "$D/out.$id" | sed -E 's/^.*rule=([^ ]+) +instance=([^—]*)—.*/   \1 :: \2/' | cut -c1-220 | sort -u | head -${TP_MAX:-8}
done
git -C /repo worktree remove --force "$D/w"
rm -rf "$D"
exit $rc
