#!/usr/bin/env python3
"""Confirm every seeded change delivered by a sub-agent (in /verif/seeded-inbox/<Cxx>/<a|b>/) in a scratch
worktree of /repo: patch applies; demo passes without the patch; full suite passes with the patch; demo
fails with the patch.  Writes /verif/seeded-inbox/confirm.json.  Usage: confirm_seeds.py [ids...]"""
import json
import os
import re
import shutil
import subprocess
import sys
import tempfile

INBOX = "/verif/seeded-inbox"
TARGET = os.environ.get("SEED_TARGET", "/tmp/seedtarget")


def sh(cmd, cwd):
    env = dict(os.environ, CARGO_TARGET_DIR=TARGET, CARGO_NET_OFFLINE="true")
    r = subprocess.run(cmd, cwd=cwd, shell=True, stdout=subprocess.PIPE, stderr=subprocess.STDOUT, text=True, env=env)
    return r.returncode, r.stdout


def main():
    only = sys.argv[1:]
    out_path = os.environ.get("SEED_OUT") or os.path.join(INBOX, "confirm.json")
    results = json.load(open(out_path)) if os.path.exists(out_path) else {}
    tmp = tempfile.mkdtemp(prefix="seedc.")
    wt = os.path.join(tmp, "w")
    subprocess.check_call(["git", "-C", "/repo", "worktree", "add", "--detach", wt, "HEAD", "-q"])
    try:
        for prop in sorted(os.listdir(INBOX)):
            pd = os.path.join(INBOX, prop)
            if not os.path.isdir(pd):
                continue
            for var in sorted(os.listdir(pd)):
                sid = "%s-%s" % (prop, var)
                d = os.path.join(pd, var)
                if only and sid not in only:
                    continue
                if sid in results and results[sid].get("confirmed") and not only:
                    continue
                meta = json.load(open(os.path.join(d, "meta.json")))
                demo_path = meta.get("demo_path") or ""
                demo_cmd = meta.get("demo_cmd") or ""
                m = re.search(r"(mpd_(?:client|protocol)/tests/[A-Za-z0-9_]+\.rs)", demo_path + " " + demo_cmd + " " + json.dumps(meta))
                rel = m.group(1) if m else None
                mc = re.search(r"(cargo test[^\n\"`]*--offline)", demo_cmd) or re.search(r"(cargo test[^\n\"`]*)", demo_cmd)
                cmd = mc.group(1) if mc else None
                r = {"demo_rel": rel, "demo_cmd": cmd}
                if not rel or not cmd:
                    r["error"] = "cannot determine demo path/command"
                    results[sid] = r
                    continue
                if "--offline" not in cmd:
                    cmd += " --offline"
                sh("git checkout -- . && git clean -fdq", wt)
                os.makedirs(os.path.dirname(os.path.join(wt, rel)), exist_ok=True)
                shutil.copy(os.path.join(d, "demo.rs"), os.path.join(wt, rel))
                rc0, o0 = sh(cmd, wt)
                r["demo_without_patch_passes"] = rc0 == 0
                rc, o = sh("git apply %s" % os.path.join(d, "patch.diff"), wt)
                r["patch_applies"] = rc == 0
                if rc == 0:
                    rc1, o1 = sh(cmd, wt)
                    r["demo_with_patch_fails"] = rc1 != 0 and "error: could not compile" not in o1
                    r["demo_tail"] = "\n".join(o1.strip().splitlines()[-6:])
                    os.remove(os.path.join(wt, rel))
                    rc2, o2 = sh("cargo test --workspace --no-fail-fast --offline", wt)
                    passed = sum(int(x) for x in re.findall(r"test result: ok\. (\d+) passed", o2))
                    failed = re.findall(r"test result: FAILED", o2)
                    r["suite_with_patch_passes"] = rc2 == 0 and not failed
                    r["suite_passed_count"] = passed
                r["confirmed"] = bool(r.get("demo_without_patch_passes") and r.get("patch_applies") and r.get("demo_with_patch_fails")
                                      and r.get("suite_with_patch_passes"))
                results[sid] = r
                print(sid, "confirmed" if r["confirmed"] else "NOT CONFIRMED", {k: v for k, v in r.items() if k not in ("demo_tail",)}, flush=True)
                json.dump(results, open(out_path, "w"), indent=1)
    finally:
        subprocess.call(["git", "-C", "/repo", "worktree", "remove", "--force", wt])
        shutil.rmtree(tmp, ignore_errors=True)


if __name__ == "__main__":
    main()
