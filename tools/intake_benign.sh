#!/bin/sh
# usage: intake_benign.sh <dir id e.g. C04w7> — copy a finished behaviour-preserving delivery into the inbox, drop its worktree, run ALL checks on each refactoring
id=$1
mkdir -p /verif/seeded-inbox/$id
for v in a b c; do [ -d /tmp/wtout/$id/$v ] && cp -r /tmp/wtout/$id/$v /verif/seeded-inbox/$id/; done
git -C /repo worktree remove --force /tmp/wt/$id 2>/dev/null
for v in a b c; do
  [ -f /verif/seeded-inbox/$id/$v/patch.diff ] || continue
  echo "== $id/$v"
  TP_MAX=${TP_MAX:-6} /verif/tools/try_patch.sh /verif/seeded-inbox/$id/$v/patch.diff C09 C01 C02 C03 C04 C05 C07 C08 C10 C12 C13 C14 C15 C16 C17 C18 C19 C20 2>&1 | grep -v "VIOLATION\|KNOWN" | grep -v "0 violation"
done
