#!/usr/bin/env python3
"""Run every check against every confirmed seeded change (scratch worktree) and write the detection
matrix to /verif/seeded-inbox/matrix.json."""
import concurrent.futures
import json
import os
import re
import shutil
import subprocess
import sys
import tempfile

INBOX = "/verif/seeded-inbox"
PROPS = ["C01", "C02", "C03", "C04", "C05", "C06", "C07", "C08", "C09", "C10", "C11", "C12", "C13", "C14", "C15", "C16", "C17", "C18", "C19", "C20"]


def check(pid, wt):
    r = subprocess.run(["/verif/check", pid, "--repo", wt], stdout=subprocess.PIPE, stderr=subprocess.STDOUT, text=True)
    rules = sorted(set(re.findall(r"rule=(\S+)", r.stdout)))
    return pid, r.returncode, rules


def main():
    conf = json.load(open(os.path.join(INBOX, "confirm.json")))
    out_path = os.path.join(INBOX, "matrix.json")
    matrix = json.load(open(out_path)) if os.path.exists(out_path) else {}
    only = sys.argv[1:]
    tmp = tempfile.mkdtemp(prefix="sweep.")
    wt = os.path.join(tmp, "w")
    subprocess.check_call(["git", "-C", "/repo", "worktree", "add", "--detach", wt, "HEAD", "-q"])
    try:
        for sid in sorted(conf):
            if not conf[sid].get("confirmed"):
                continue
            if only and sid not in only:
                continue
            if sid in matrix and not only:
                continue
            prop, var = sid.split("-")
            subprocess.call("git checkout -- . && git clean -fdq", cwd=wt, shell=True)
            subprocess.check_call(["git", "apply", os.path.join(INBOX, prop, var, "patch.diff")], cwd=wt)
            res = {}
            # export once per configuration, then run the rest in parallel
            for pid in ("C12", "C09"):
                p, rc, rules = check(pid, wt)
                res[p] = {"rc": rc, "rules": rules}
            with concurrent.futures.ThreadPoolExecutor(max_workers=8) as ex:
                for p, rc, rules in ex.map(lambda x: check(x, wt), [x for x in PROPS if x not in res]):
                    res[p] = {"rc": rc, "rules": rules}
            matrix[sid] = res
            fired = {p: r["rules"] for p, r in res.items() if r["rules"]}
            print(sid, fired, flush=True)
            json.dump(matrix, open(out_path, "w"), indent=1)
    finally:
        subprocess.call(["git", "-C", "/repo", "worktree", "remove", "--force", wt])
        shutil.rmtree(tmp, ignore_errors=True)


if __name__ == "__main__":
    main()
