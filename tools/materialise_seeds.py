#!/usr/bin/env python3
"""Copy every confirmed seeded change from /verif/seeded-inbox/<dir>/<a|b>/ to /verif/seeded/<dir>-<a|b>/ and (re)write its
meta.json from the sub-agent's description, tools/confirm_seeds.py (confirm.json) and tools/sweep_seeds.py (matrix.json).
Usage: materialise_seeds.py [ids...]   (no ids: all confirmed seeds that have a matrix row)"""
import json
import os
import re
import shutil
import sys

INBOX = "/verif/seeded-inbox"
OUT = "/verif/seeded"


def main():
    only = sys.argv[1:]
    conf = json.load(open(os.path.join(INBOX, "confirm.json")))
    matrix = json.load(open(os.path.join(INBOX, "matrix.json")))
    n = 0
    for sid in sorted(conf):
        if only and sid not in only:
            continue
        c = conf[sid]
        if not c.get("confirmed") or sid not in matrix:
            continue
        d, var = sid.rsplit("-", 1)
        src = os.path.join(INBOX, d, var)
        dst = os.path.join(OUT, sid)
        os.makedirs(dst, exist_ok=True)
        for f in ("patch.diff", "demo.rs"):
            shutil.copyfile(os.path.join(src, f), os.path.join(dst, f))
        am = json.load(open(os.path.join(src, "meta.json")))
        prop = re.match(r"C\d\d", d).group(0)
        fired = {p: r["rules"] for p, r in matrix[sid].items() if r["rc"] != 0 and r["rules"]}
        own = prop in fired
        if own:
            detected_by = fired[prop]
            run_checks = [prop]
        else:
            run_checks = sorted(fired)[:2]
            detected_by = [r for p in run_checks for r in fired[p]]
        meta = {
            "property": prop,
            "wave": int(re.search(r"w(\d+)", d).group(1)) if re.search(r"w(\d+)", d) else 1,
            "summary": am.get("summary"),
            "mechanism": am.get("mechanism"),
            "needs": am.get("needs"),
            "demo_path": c.get("demo_rel") or am.get("demo_path"),
            "demo_cmd": c.get("demo_cmd") or am.get("demo_cmd"),
            "ran": {
                "by": "tools/confirm_seeds.py in a scratch git worktree of /repo HEAD (removed afterwards)",
                "patch_applies": c.get("patch_applies"),
                "demo_without_patch_passes": c.get("demo_without_patch_passes"),
                "demo_with_patch_fails": c.get("demo_with_patch_fails"),
                "full_suite_with_patch_passes": c.get("suite_with_patch_passes"),
                "suite_tests_passed_with_patch": c.get("suite_passed_count"),
                "checks": "tools/sweep_seeds.py: every check run with --repo on the patched scratch worktree",
            },
            "detected": bool(fired),
            "detected_by": detected_by,
            "run_checks": run_checks,
            "all_rules_fired": fired,
            "detected_by_own_property_check": own,
        }
        json.dump(meta, open(os.path.join(dst, "meta.json"), "w"), indent=1)
        n += 1
        print(sid, "own" if own else "other", detected_by)
    print(n, "seeds materialised")


if __name__ == "__main__":
    main()
