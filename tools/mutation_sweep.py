#!/usr/bin/env python3
"""Mutation sweep of the *checker* (still static on the checker's side: every mutant of /repo is analysed by the checks, never
run by them).  Generates small single-site syntactic mutants of the library sources, and for each one records
  - whether it still compiles (and without new warnings),
  - which rules of which checks report it (`./check <ID> --repo <scratch>`),
  - whether the repository's own test suite still passes with it (run here only to classify the mutant: a mutant the tests
    already kill is not a "realistic change that passes the existing tests").
The interesting classes are (A) unflagged + tests pass = candidate blind spot (or an equivalent / irrelevant mutant) and
(B) flagged + tests pass = detection (or, if the mutant is behaviour-preserving, a false alarm).  Both need reading.

Usage: mutation_sweep.py list                       -> number of sites per operator
       mutation_sweep.py run <N> [--workers K] [--seed S] [--files substr,...]   -> sample N mutants, append to the result file
       mutation_sweep.py report                     -> print classes A and B
Scratch worktrees and target dirs live under /tmp/mut and are removed at the end."""
import argparse
import concurrent.futures
import hashlib
import json
import os
import random
import re
import shutil
import subprocess
import sys
import threading

REPO = "/repo"
OUT = "/verif/seeded-inbox/mutsweep.json"
ROOT = "/tmp/mut"
PROPS = ["C01", "C02", "C03", "C04", "C05", "C07", "C08", "C09", "C10", "C12", "C13", "C14", "C15", "C16", "C17", "C18", "C19", "C20"]

OPS = [
    ("rel", r" < ", " <= "), ("rel", r" <= ", " < "), ("rel", r" > ", " >= "), ("rel", r" >= ", " > "),
    ("eq", r" == ", " != "), ("eq", r" != ", " == "),
    ("logic", r" && ", " || "), ("logic", r" \|\| ", " && "),
    ("arith", r" \+ 1\b", ""), ("arith", r" - 1\b", ""), ("arith", r" \+ ", " - "), ("arith", r" - ", " + "), ("arith", r" / ", " * "),
    ("bool", r"\btrue\b", "false"), ("bool", r"\bfalse\b", "true"),
    ("neg", r"\bif !", "if "), ("neg", r"\bwhile !", "while "),
    ("method", r"\.next\(\)", ".next_back()"), ("method", r"\.next_back\(\)", ".next()"),
    ("method", r"\.is_some\(\)", ".is_none()"), ("method", r"\.is_none\(\)", ".is_some()"),
    ("method", r"\.is_empty\(\)", ".is_empty() == false"), ("method", r"\.take\(\)", ".clone()"),
    ("method", r"\.first\(\)", ".last()"), ("method", r"\.last\(\)", ".first()"),
    ("method", r"\.find\(", ".rfind("), ("method", r"\.position\(", ".rposition("),
    ("method", r"\bmin\(", "max("), ("method", r"\bmax\(", "min("),
    ("method", r"\.saturating_add\(", ".wrapping_add("), ("method", r"\.checked_add\(", ".checked_sub("),
    ("method", r"\.split_once\(", ".rsplit_once("), ("method", r"\.starts_with\(", ".ends_with("),
    ("method", r"\.eq_ignore_ascii_case\(", ".eq("),
    ("const", r"\b0\b", "1"), ("const", r"\b1\b", "2"), ("const", r"\b2\b", "3"), ("const", r"\b100\b", "101"), ("const", r"\b5\b", "6"),
    ("variant", r"\bSome\(([a-z_]+)\)", "None"), ("variant", r"\bOk\(None\)", "Ok(Default::default())"),
    ("try", r"\)\?;", ").ok();"),
]
SKIP_LINE = re.compile(r"^\s*(//|#\[|///|//!|use |pub use |mod |pub mod |assert|debug_assert|trace!|debug!|info!|warn!|error!|\}|\{)")
DELETABLE = re.compile(r"^\s*(self|[a-z_]+)(\.[a-z_0-9]+)*\.[a-z_0-9]+\([^;]*\);\s*$")


def sources():
    out = []
    for crate in ("mpd_protocol", "mpd_client"):
        for dp, dn, fn in os.walk(os.path.join(REPO, crate, "src")):
            for f in sorted(fn):
                if f.endswith(".rs"):
                    out.append(os.path.relpath(os.path.join(dp, f), REPO))
    return sorted(out)


def sites():
    """[(id, file, line_no, kind, old_line, new_line)]"""
    res = []
    for rel in sources():
        lines = open(os.path.join(REPO, rel)).read().split("\n")
        in_macro_log = 0
        for i, ln in enumerate(lines):
            if re.match(r"^#\[cfg\(test\)\]", ln.strip()) and i + 1 < len(lines) and "mod " in lines[i + 1]:
                break
            if SKIP_LINE.match(ln):
                continue
            code = ln.split("//")[0]
            if not code.strip():
                continue
            for kind, pat, rep in OPS:
                for m in re.finditer(pat, code):
                    # not inside a string literal (crude: even number of quotes before the match)
                    if code[:m.start()].count('"') % 2 == 1 and kind not in ("lit",):
                        continue
                    new = code[:m.start()] + m.expand(rep) + code[m.end():] + ln[len(code):]
                    if new != ln:
                        res.append((rel, i, kind + ":" + pat, ln, new))
            if DELETABLE.match(code) and "let " not in code and "return" not in code:
                res.append((rel, i, "delete-stmt", ln, ""))
            # second family: slips that keep the tokens and move them
            for m in re.finditer(r"!(?=[a-z_(])", code):
                if code[:m.start()].count('"') % 2 == 0 and not code[:m.start()].rstrip().endswith(("if", "while")) and "!=" not in code[m.start():m.start() + 2] \
                        and not re.search(r"[a-z_]$", code[:m.start()]):
                    res.append((rel, i, "neg-any", ln, code[:m.start()] + code[m.end():] + ln[len(code):]))
            for m in re.finditer(r"\.\.(?![.=])", code):
                if code[:m.start()].count('"') % 2 == 0:
                    res.append((rel, i, "range-incl", ln, code[:m.start()] + "..=" + code[m.end():] + ln[len(code):]))
            for m in re.finditer(r"\.(0|1)\b(?!\.\d)", code):
                if code[:m.start()].count('"') % 2 == 0 and re.search(r"[a-z_)\]]$", code[:m.start()]):
                    res.append((rel, i, "tuple-idx", ln, code[:m.start()] + "." + ("1" if m.group(1) == "0" else "0") + code[m.end():] + ln[len(code):]))
            m = re.search(r"^(\s*(?:if|while|return)?.*?)([a-z_.()!]+) (&&|\|\|) ([a-z_.()!]+)(.*)$", code)
            if m and code.count('"') == 0:
                res.append((rel, i, "drop-conjunct", ln, m.group(1) + m.group(2) + m.group(5) + ln[len(code):]))
                res.append((rel, i, "drop-conjunct", ln, m.group(1) + m.group(4) + m.group(5) + ln[len(code):]))
            m = re.search(r"\b([a-z_]+(?:::[a-z_]+)*)\(([a-z_][a-z_0-9.]*), ([a-z_][a-z_0-9.]*)\)", code)
            if m and code.count('"') == 0 and m.group(2) != m.group(3):
                res.append((rel, i, "swap-args", ln, code[:m.start(2)] + m.group(3) + ", " + m.group(2) + code[m.end(3):] + ln[len(code):]))
            # adjacent single-line match arms: swap the right-hand sides
            if i + 1 < len(lines):
                a1 = re.match(r"^(\s*)(\S.*?) => (.+),\s*$", ln)
                a2 = re.match(r"^(\s*)(\S.*?) => (.+),\s*$", lines[i + 1])
                if a1 and a2 and a1.group(1) == a2.group(1) and a1.group(3) != a2.group(3) and "{" not in a1.group(3) + a2.group(3):
                    res.append((rel, i, "swap-arms", ln + "\n" + lines[i + 1],
                                "%s%s => %s,\n%s%s => %s," % (a1.group(1), a1.group(2), a2.group(3), a2.group(1), a2.group(2), a1.group(3))))
                # adjacent simple statements: swap their order
                s1, s2 = ln, lines[i + 1]
                if DELETABLE.match(s1.split("//")[0]) and DELETABLE.match(s2.split("//")[0]) and s1.strip() != s2.strip():
                    res.append((rel, i, "swap-stmts", s1 + "\n" + s2, s2 + "\n" + s1))
            # literal in a match arm or command constructor: flip the case of its first letter
            m = re.search(r'"([A-Za-z][A-Za-z_\-]*)"\s*(=>|\))', code)
            if m:
                w = m.group(1)
                w2 = (w[0].lower() if w[0].isupper() else w[0].upper()) + w[1:]
                res.append((rel, i, "literal-case", ln, code[:m.start(1)] + w2 + code[m.end(1):] + ln[len(code):]))
    out = []
    for rel, i, kind, old, new in res:
        mid = hashlib.sha1(("%s:%d:%s:%s" % (rel, i, kind, new)).encode()).hexdigest()[:10]
        out.append({"id": mid, "file": rel, "line": i + 1, "kind": kind, "old": old, "new": new})
    return out


def sh(cmd, cwd, env=None, timeout=None):
    e = dict(os.environ, CARGO_NET_OFFLINE="true")
    if env:
        e.update(env)
    try:
        r = subprocess.run(cmd, cwd=cwd, shell=True, stdout=subprocess.PIPE, stderr=subprocess.STDOUT, text=True, env=e, timeout=timeout)
        return r.returncode, r.stdout
    except subprocess.TimeoutExpired as ex:
        return 124, (ex.stdout or b"").decode("utf-8", "replace") if isinstance(ex.stdout, bytes) else (ex.stdout or "")


LOCK = threading.Lock()


def save(results):
    with LOCK:
        tmp = OUT + ".tmp"
        json.dump(results, open(tmp, "w"), indent=1)
        os.replace(tmp, OUT)


def worker(k, queue, results):
    wt = os.path.join(ROOT, "w%d" % k)
    tgt = os.path.join(ROOT, "t%d" % k)
    subprocess.check_call(["git", "-C", REPO, "worktree", "add", "--detach", wt, "HEAD", "-q"])
    env = {"CARGO_TARGET_DIR": tgt}
    try:
        sh("cargo test --workspace --offline --no-run", wt, env)
        while True:
            with LOCK:
                if not queue:
                    return
                m = queue.pop()
            sh("git checkout -- . && git clean -fdq", wt)
            p = os.path.join(wt, m["file"])
            lines = open(p).read().split("\n")
            span = m["old"].count("\n") + 1
            if "\n".join(lines[m["line"] - 1:m["line"] - 1 + span]) != m["old"]:
                continue
            lines[m["line"] - 1:m["line"] - 1 + span] = m["new"].split("\n")
            open(p, "w").write("\n".join(lines))
            rec = dict(m)
            rc, out = sh("cargo check --workspace --offline 2>&1", wt, env)
            rec["compiles"] = rc == 0
            rec["warnings"] = bool(re.search(r"^warning: (?!.*generated \d+ warning)", out, re.M)) and "warning: unused manifest key" not in out
            if rc != 0 or rec["warnings"]:
                with LOCK:
                    results[m["id"]] = rec
                save(results)
                continue
            fired = {}
            first = subprocess.run(["/verif/check", "C09", "--repo", wt], stdout=subprocess.PIPE, stderr=subprocess.STDOUT, text=True)
            rules = sorted(set(re.findall(r"rule=(\S+)", first.stdout)))
            if first.returncode != 0:
                fired["C09"] = rules

            def one(pid):
                r = subprocess.run(["/verif/check", pid, "--repo", wt], stdout=subprocess.PIPE, stderr=subprocess.STDOUT, text=True)
                return pid, r.returncode, sorted(set(re.findall(r"rule=(\S+)", r.stdout)))
            with concurrent.futures.ThreadPoolExecutor(max_workers=5) as ex:
                for pid, rc2, rules in ex.map(one, [x for x in PROPS if x != "C09"]):
                    if rc2 != 0:
                        fired[pid] = rules
            rec["fired"] = fired
            rc, out = sh("cargo test --workspace --offline --no-fail-fast 2>&1", wt, env, timeout=420)
            rec["tests_pass"] = rc == 0
            rec["tests_timeout"] = rc == 124
            if rc not in (0, 124):
                rec["failed_tests"] = re.findall(r"^test (\S+) \.\.\. FAILED", out, re.M)[:6]
            with LOCK:
                results[m["id"]] = rec
            save(results)
            print("%s %s:%d %s | %s | tests %s" % (m["id"], m["file"], m["line"], m["kind"], ",".join(sorted(r for v in fired.values() for r in v)) or "-",
                                                  "pass" if rec["tests_pass"] else "FAIL"), flush=True)
    finally:
        subprocess.call(["git", "-C", REPO, "worktree", "remove", "--force", wt])
        shutil.rmtree(tgt, ignore_errors=True)


def main():
    ap = argparse.ArgumentParser()
    ap.add_argument("cmd")
    ap.add_argument("n", nargs="?", type=int, default=50)
    ap.add_argument("--workers", type=int, default=3)
    ap.add_argument("--seed", type=int, default=1)
    ap.add_argument("--files", default="")
    ap.add_argument("--kinds", default="")
    args = ap.parse_args()
    all_sites = sites()
    if args.cmd == "list":
        by = {}
        for s in all_sites:
            by[s["kind"].split(":")[0]] = by.get(s["kind"].split(":")[0], 0) + 1
        print(len(all_sites), "sites", by)
        return
    results = json.load(open(OUT)) if os.path.exists(OUT) else {}
    if args.cmd == "report":
        A = [r for r in results.values() if r.get("compiles") and not r.get("warnings") and r.get("tests_pass") and not r.get("fired")]
        B = [r for r in results.values() if r.get("compiles") and not r.get("warnings") and r.get("tests_pass") and r.get("fired")]
        C = [r for r in results.values() if r.get("compiles") and not r.get("warnings") and not r.get("tests_pass")]
        print("mutants %d | not compiling / warnings %d | killed by tests %d (of which flagged %d) | survive tests %d: flagged %d, unflagged %d"
              % (len(results), len([r for r in results.values() if not r.get("compiles") or r.get("warnings")]), len(C),
                 len([r for r in C if r.get("fired")]), len(A) + len(B), len(B), len(A)))
        for name, L in (("A unflagged, tests pass", A), ("B flagged, tests pass", B)):
            print("==", name)
            for r in sorted(L, key=lambda r: (r["file"], r["line"])):
                print("%s %s:%d [%s]\n    - %s\n    + %s%s" % (r["id"], r["file"], r["line"], r["kind"], r["old"].strip(), r["new"].strip(),
                                                               ("\n    => " + ", ".join(sorted(x for v in r["fired"].values() for x in v))) if r.get("fired") else ""))
        return
    if args.cmd == "summary":
        # the committed summary (selftest/mutation_sweep.json): class counts, and every mutant that compiles and passes the tests
        # with what reports it today (class B) or nothing (class A)
        ok = [r for r in results.values() if r.get("compiles") and not r.get("warnings")]
        surv = [r for r in ok if r.get("tests_pass")]
        out = {"mutants": len(results), "not_compiling_or_warning": len(results) - len(ok),
               "killed_by_tests": len(ok) - len(surv), "killed_by_tests_and_reported": len([r for r in ok if not r.get("tests_pass") and r.get("fired")]),
               "survive_tests": len(surv), "survive_reported": len([r for r in surv if r.get("fired")]),
               "survive_unreported": len([r for r in surv if not r.get("fired")]),
               "reported_only_after_rules_were_added": len([r for r in surv if r.get("fired_on_recheck")]),
               "survivors": [{"id": r["id"], "file": r["file"], "line": r["line"], "kind": r["kind"], "old": r["old"].strip()[:160], "new": r["new"].strip()[:160],
                              "reported_by": sorted(x for v in (r.get("fired") or {}).values() for x in v),
                              "after_recheck": bool(r.get("fired_on_recheck"))}
                             for r in sorted(surv, key=lambda r: (r["file"], r["line"], r["id"]))]}
        json.dump(out, open("/verif/selftest/mutation_sweep.json", "w"), indent=1)
        print({k: v for k, v in out.items() if k != "survivors"})
        return
    if args.cmd == "recheck":
        # run the checks again (current rules) on every mutant of class A: compiles, passes the tests, was not reported
        A = [r for r in results.values() if r.get("compiles") and not r.get("warnings") and r.get("tests_pass") and not r.get("fired")]
        root = "/tmp/mutre"
        os.makedirs(root, exist_ok=True)
        wt = os.path.join(root, "w")
        subprocess.check_call(["git", "-C", REPO, "worktree", "add", "--detach", wt, "HEAD", "-q"])
        try:
            for m in sorted(A, key=lambda r: (r["file"], r["line"])):
                sh("git checkout -- . && git clean -fdq", wt)
                p = os.path.join(wt, m["file"])
                lines = open(p).read().split("\n")
                span = m["old"].count("\n") + 1
                if "\n".join(lines[m["line"] - 1:m["line"] - 1 + span]) != m["old"]:
                    continue
                lines[m["line"] - 1:m["line"] - 1 + span] = m["new"].split("\n")
                open(p, "w").write("\n".join(lines))
                fired = {}

                def one(pid):
                    r = subprocess.run(["/verif/check", pid, "--repo", wt], stdout=subprocess.PIPE, stderr=subprocess.STDOUT, text=True)
                    return pid, r.returncode, sorted(set(re.findall(r"rule=(\S+)", r.stdout)))
                pid, rc2, rules = one("C09")
                if rc2 != 0:
                    fired[pid] = rules
                with concurrent.futures.ThreadPoolExecutor(max_workers=8) as ex:
                    for pid, rc2, rules in ex.map(one, [x for x in PROPS if x != "C09"]):
                        if rc2 != 0:
                            fired[pid] = rules
                if fired:
                    results[m["id"]]["fired"] = fired
                    results[m["id"]]["fired_on_recheck"] = True
                    save(results)
                print("%s %s:%d %s | %s" % (m["id"], m["file"], m["line"], m["kind"], ",".join(sorted(r for v in fired.values() for r in v)) or "-"), flush=True)
        finally:
            subprocess.call(["git", "-C", REPO, "worktree", "remove", "--force", wt])
            shutil.rmtree(root, ignore_errors=True)
        return
    cand = [s for s in all_sites if s["id"] not in results]
    if args.files:
        cand = [s for s in cand if any(f in s["file"] for f in args.files.split(","))]
    if args.kinds:
        cand = [s for s in cand if any(s["kind"].startswith(k) for k in args.kinds.split(","))]
    random.Random(args.seed).shuffle(cand)
    queue = cand[:args.n]
    os.makedirs(ROOT, exist_ok=True)
    ths = [threading.Thread(target=worker, args=(k, queue, results)) for k in range(args.workers)]
    for t in ths:
        t.start()
    for t in ths:
        t.join()
    save(results)
    if not os.listdir(ROOT):
        os.rmdir(ROOT)


if __name__ == "__main__":
    main()
