#!/usr/bin/env python3
"""Print the rule inventory table of DESIGN.md §9.2 from the evidence files (quick tier)."""
import glob
import json

print("| id | rules (obligations) | total |\n|---|---|---|")
for p in sorted(glob.glob("/verif/evidence/C*.json")):
    e = json.load(open(p))
    pr = e["coverage"]["per_rule"]
    main = {k: v["obligations"] for k, v in pr.items() if not k.endswith((".floor", ".anchor", ".control"))}
    print("| %s | %s | %d |" % (e["property_id"], ", ".join("`%s` (%d)" % kv for kv in sorted(main.items())), e["coverage"]["obligations"]))
