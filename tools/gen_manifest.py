#!/usr/bin/env python3
"""Writes /verif/MANIFEST.json from the table below (kept next to the checks so they stay in sync)."""
import json
import os

VERIF = os.path.dirname(os.path.dirname(os.path.abspath(__file__)))

NOTE = ("Trusted: rustc nightly front end / MIR construction / callee resolution, the logic-free "
        "mpdfacts exporter, documented semantics of tokio/bytes/nom/std APIs, oracle tables written "
        "from the MPD protocol reference. Rule-based: decides the stated structural clauses "
        "(necessary conditions), not the behavioural statement as a whole; see DESIGN.md §4 and §7.")

CHECKS = {
    # id: (technique, level text, design ref)
}

NOT_APPLICABLE = {
}


def load_checks():
    import importlib
    import sys
    sys.path.insert(0, VERIF)
    out = {}
    pdir = os.path.join(VERIF, "mpdlint", "props")
    for f in sorted(os.listdir(pdir)):
        if f.startswith("C") and f.endswith(".py"):
            pid = f[:-3]
            mod = importlib.import_module("mpdlint.props." + pid)
            out[pid] = mod
    return out


def main():
    mods = load_checks()
    props = [json.loads(l) for l in open(os.path.join(VERIF, "properties.jsonl"))]
    checks = []
    na = []
    for p in props:
        pid = p["id"]
        if pid in mods:
            m = mods[pid]
            checks.append({
                "property_id": pid,
                "quick_cmd": "./check %s --tier quick" % pid,
                "thorough_cmd": "./check %s --tier thorough" % pid,
                "evidence_file": "/verif/evidence/%s.json" % pid,
                "replay_cmd_template": "cat {path}",
                "engine": "mpdlint",
                "level_claimed": {
                    "category": "other",
                    "text": getattr(m, "LEVEL", "rule-based static analysis of the type-checked program (MIR)"),
                    "design_ref": "DESIGN.md §4/%s" % pid,
                },
                "level_note": NOTE,
                "technique": getattr(m, "TECHNIQUE", "static analysis: custom MIR rules over rustc_private facts"),
            })
        else:
            na.append({"property_id": pid,
                       "reason": NOT_APPLICABLE.get(pid, "check not built yet (static analysis, see DESIGN.md §4/%s)" % pid)})
    man = {
        "version": 1,
        "setup_cmd": "./setup.sh",
        "hooks": {
            "guard": "mpd_client_verif",
            "enable": "none needed: the checks analyse /repo as it is (no instrumentation); cfg flag reserved",
            "baseline_off_cmd": "cd /repo && cargo test --workspace --no-fail-fast --offline",
            "source_commits": [],
            "add_only": True,
        },
        "engines": [
            {"name": "mpdfacts", "path": "/verif/mpdfacts", "serves_properties": sorted(mods),
             "kind_free_text": "rustc_private driver (nightly) exporting MIR-as-built, resolved callees, ADT and impl tables, coroutine witnesses as JSON; no property logic"},
            {"name": "mpdlint", "path": "/verif/mpdlint", "serves_properties": sorted(mods),
             "kind_free_text": "Python rule library: call graph, CFG dominance/control dependence, provenance, typestate interpreter, charset abstract interpretation, literal<->variant tables, panic inventory"},
        ],
        "checks": checks,
        "not_applicable": na,
        "notes": "Static analysis only (DESIGN.md). fix: commits in /repo: 355fdd1 bc9734d abb2d79 8d0de41 004abe0 78ca7dc (see known_findings.json). Known findings: D2 (C04), D6 (C06, five input classes), D7 (C11, two value classes).",
    }
    with open(os.path.join(VERIF, "MANIFEST.json"), "w") as fh:
        json.dump(man, fh, indent=1)
    print("MANIFEST.json: %d checks, %d not applicable" % (len(checks), len(na)))


if __name__ == "__main__":
    main()
