#!/bin/sh
# Offline setup: build the fact exporter and warm the dependency artefacts (no network needed).
set -e
cd "$(dirname "$0")"
export CARGO_NET_OFFLINE=true
(cd mpdfacts && cargo build --offline)
python3 - <<'PY'
import sys
sys.path.insert(0, ".")
from mpdlint import export
export.ensure_facts(["K1", "K2", "K3"])
print("facts exported for K1, K2, K3")
PY
